"""selftest-mutants: sensitivity of the checks.

Every patch under /verif/mutants/<PROP>-*.diff (own regressions, taken from DESIGN.md's lists) and
/verif/seeded/<id>/patch.diff (independently written breaking changes, see meta.json) is applied to a
scratch copy of /repo/src OUTSIDE /repo and /verif, the property's quick check is run against the copy
(VERIF_REPO), and the run must report at least one violation that is not a known finding.  The scratch
copy is removed afterwards.  Prints a table; exit 0 iff every patch is caught (missed ones are listed).
Select with VERIF_MUTANTS=substring.
"""
import glob
import json
import os
import shutil
import subprocess
import sys
import tempfile
import time

from . import cli

VERIF = cli.VERIF


def _patches():
    out = []
    for p in sorted(glob.glob(os.path.join(VERIF, "mutants", "*.diff"))):
        prop = os.path.basename(p).split("-")[0]
        out.append((os.path.basename(p)[:-5], prop, p))
    for d in sorted(glob.glob(os.path.join(VERIF, "seeded", "*"))):
        meta = os.path.join(d, "meta.json")
        pf = os.path.join(d, "patch.diff")
        if os.path.exists(meta) and os.path.exists(pf):
            prop = json.load(open(meta)).get("property")
            out.append(("seeded/" + os.path.basename(d), prop, pf))
    sel = os.environ.get("VERIF_MUTANTS")
    if sel:
        pats = [s_ for s_ in sel.split(",") if s_]
        # a pattern naming a patch exactly selects only that patch; otherwise substring match
        names = {x[0] for x in out}
        out = [x for x in out if any((s_ == x[0]) if s_ in names else (s_ in x[0]) for s_ in pats)]
    return out


def run_one(name, prop, patch, tier="quick", seed=0, scale=1.0):
    base = os.environ.get("VERIF_TMP") or ("/dev/shm" if os.path.isdir("/dev/shm") else tempfile.gettempdir())
    scratch = tempfile.mkdtemp(prefix="vmut-", dir=base)
    t0 = time.time()
    try:
        shutil.copytree("/repo/src", os.path.join(scratch, "src"), ignore=shutil.ignore_patterns("__pycache__", "test"))
        cp = subprocess.run(["patch", "-p1", "-s", "-d", scratch, "-i", patch], capture_output=True, text=True)
        if cp.returncode != 0:
            return {"name": name, "prop": prop, "status": "patch-failed", "detail": (cp.stdout + cp.stderr)[-300:]}
        env = dict(os.environ, VERIF_REPO=scratch, VERIF_NO_SHRINK="1", VERIF_EVIDENCE_DIR=os.path.join(scratch, "evidence"),
                   VERIF_SEED=str(seed))
        cp = subprocess.run([cli.PY, os.path.join(VERIF, "vsim", "cli.py"), prop, "--tier", tier, "--scale", str(scale)],
                            env=env, capture_output=True, text=True, cwd=VERIF)
        sigs = sorted({l.split()[1] for l in cp.stdout.splitlines() if l.startswith("UNSHRUNK ")})
        herr = [l for l in cp.stdout.splitlines() if l.startswith("HARNESS-ERROR")]
        status = "caught" if sigs else ("harness-error" if herr else "MISSED")
        return {"name": name, "prop": prop, "status": status, "signatures": sigs[:6], "n_signatures": len(sigs),
                "wall_s": round(time.time() - t0, 1), "harness": herr[:2]}
    finally:
        shutil.rmtree(scratch, ignore_errors=True)


def main(a):
    rows = []
    for name, prop, patch in _patches():
        r = run_one(name, prop, patch, tier=a.tier, seed=a.seed, scale=a.scale)
        rows.append(r)
        print("%-44s %-4s %-13s %s" % (r["name"], r["prop"], r["status"], ", ".join(r.get("signatures", [])[:2]) or r.get("detail", "")))
        sys.stdout.flush()
    missed = [r for r in rows if r["status"] != "caught"]
    out = os.environ.get("VERIF_MUTANT_REPORT")
    if out:
        json.dump(rows, open(out, "w"), indent=1)
    print("selftest-mutants: %d patches, %d caught, %d not caught" % (len(rows), len(rows) - len(missed), len(missed)))
    return 0 if not missed else 1
