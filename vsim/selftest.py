"""Self tests of the machinery itself.

selftest-determinism: every claimed property's streams, N seeds each, executed
  (A) PYTHONHASHSEED=0 with 4 workers, (B) PYTHONHASHSEED=0 with 16 workers,
  (C) PYTHONHASHSEED=1 with 16 workers - all in fresh interpreters.
  Required: run digests A == B (same seed => same execution, independent of worker count and
  completion order); trace digests A == C (generation independent of hashing).  Execution digests
  that differ between A and C are reported as hash-seed sensitive (legitimate only for engines
  that exercise set-ordered toolbox code, and those pin the hash seed per run).
"""
import json
import os
import shutil
import subprocess
import sys
import time

from . import cli


def _run(prop, hashseed, workers, scale, scratch, tag, tier, seed):
    out = os.path.join(scratch, "%s-%s.jsonl" % (prop, tag))
    env = dict(os.environ, PYTHONHASHSEED=str(hashseed))
    cmd = [cli.PY, os.path.abspath(cli.__file__), "--child", prop, "--tier", tier, "--seed", str(seed),
           "--hash", "0", "--K", "1", "--workers", str(workers), "--budget", "600", "--out", out,
           "--scale", str(scale)]
    return out, subprocess.Popen(cmd, env=env, stdout=subprocess.DEVNULL, stderr=subprocess.DEVNULL)


def _load(path):
    d = {}
    herr = []
    for line in open(path):
        r = json.loads(line)
        if "harness_error" in r:
            herr.append(r["harness_error"])
        elif "digest" in r:
            d[(r["engine"], r["index"])] = r
    return d, herr


def main(a):
    t0 = time.time()
    props = sorted(cli.PROP_STREAMS) if not os.environ.get("VERIF_SELFTEST_PROPS") else \
        os.environ["VERIF_SELFTEST_PROPS"].split(",")
    n_target = 24 if a.tier == "quick" else 96
    scratch = cli._scratch()
    bad = 0
    sens = 0
    total = 0
    try:
        for prop in props:
            runs = sum(int(cli.TIER[a.tier]["runs"][e] * s) for e, s in cli.PROP_STREAMS[prop])
            scale = min(1.0, n_target / max(runs, 1) * len(cli.PROP_STREAMS[prop]))
            jobs = [_run(prop, 0, 4, scale, scratch, "A", a.tier, a.seed)]
            jobs.append(_run(prop, 0, 12, scale, scratch, "B", a.tier, a.seed))
            for _, p in jobs:
                p.wait()
            jobs2 = [_run(prop, 1, 16, scale, scratch, "C", a.tier, a.seed)]
            for _, p in jobs2:
                p.wait()
            A, ea = _load(jobs[0][0])
            B, eb = _load(jobs[1][0])
            C, ec = _load(jobs2[0][0])
            for e in (ea + eb + ec)[:3]:
                print("HARNESS-ERROR %s: %s" % (prop, e.strip().splitlines()[-1][:200]))
                bad += 1
            if not A or set(A) != set(B) or set(A) != set(C):
                print("HARNESS-ERROR %s: run sets differ (%d/%d/%d)" % (prop, len(A), len(B), len(C)))
                bad += 1
                continue
            for k in sorted(A):
                total += 1
                if A[k]["digest"] != B[k]["digest"]:
                    print("HARNESS-ERROR nondeterministic execution: %s %s index %d" % (prop, k[0], k[1]))
                    bad += 1
                if A[k]["trace_digest"] != C[k]["trace_digest"]:
                    print("HARNESS-ERROR generation depends on PYTHONHASHSEED: %s %s index %d" % (prop, k[0], k[1]))
                    bad += 1
                if A[k]["digest"] != C[k]["digest"]:
                    sens += 1
            print("%s: %d seeds x 3 executions compared" % (prop, len(A)))
    finally:
        shutil.rmtree(scratch, ignore_errors=True)
    print("selftest-determinism: %d runs, %d mismatches, %d hash-seed sensitive executions, %.0fs" % (
        total, bad, sens, time.time() - t0))
    return 2 if bad else 0
