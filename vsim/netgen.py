"""Seeded generator of small network *build programs* (substrate for every engine).

Families: "gas", "water" (tree + mesh closers, every branch / node component kind) and
"heat" (district heating loop: flow line, return line, consumers / exchangers between them,
circulation pump or external grid + pump).  All indices are explicit.  With
``sorted_labels=True`` the labels per table are strictly increasing in creation order (so a
JSON restart, which sorts indices, preserves row order); E4 asks for unsorted ones.
"""

GAS_FLUIDS = ["lgas", "hgas", "hydrogen", "methane"]
LIQ_FLUIDS = ["water"]
PIPE_STD_TYPES = ["80_GGG", "100_GGG", "125_GGG", "150_GGG", "200_GGG", "100_ST<16", "150_ST<16",
                  "110_PE_100_SDR_11", "160_PE_100_SDR_17"]
PUMP_STD_TYPES = ["P1", "P2", "P3"]


TABLE_OF_FN = {"create_pump": "pump", "create_compressor": "compressor", "create_heat_exchanger": "heat_exchanger",
               "create_flow_control": "flow_control"}


def _labels(rng, n, sorted_labels, big=False):
    """n distinct non-negative labels, non contiguous."""
    if big:
        base = rng.choice([100000, 150000, 1000003])
    else:
        base = rng.choice([0, 0, 0, 1, 7, 40])
    labs = []
    cur = base
    for _ in range(n):
        labs.append(cur)
        cur += rng.choice([1, 1, 1, 2, 3, 10])
    if not sorted_labels:
        rng.shuffle(labs)
    return labs


class _Counter:
    def __init__(self, rng, sorted_labels):
        self.rng = rng
        self.sorted = sorted_labels
        self.next = {}

    def new(self, table):
        if not self.sorted:
            # unsorted element labels: any unused label, so that table order != index order
            used = self.next.setdefault(("used", table), set())
            while True:
                cand = self.rng.randrange(0, 40)
                if cand not in used:
                    used.add(cand)
                    return cand
        cur = self.next.get(table)
        if cur is None:
            cur = self.rng.choice([0, 0, 0, 2, 5, 11])
        self.next[table] = cur + self.rng.choice([1, 1, 1, 2, 4])
        return cur


def _r(rng, lo, hi, nd=4):
    return round(rng.uniform(lo, hi), nd)


def gen_program(rng, family=None, max_junctions=8, sorted_labels=True, thermal=None,
                kinds=None, big_labels=False, many_pi=False):
    """Return (program, meta). meta lists what can be edited / faulted later."""
    if family is None:
        family = rng.choice(["gas", "gas", "water", "water", "heat"])
    if family == "heat":
        return _gen_heat(rng, max_junctions, sorted_labels, kinds, big_labels)
    return _gen_tree(rng, family, max_junctions, sorted_labels, thermal, kinds, big_labels, many_pi)


# ------------------------------------------------------------------------------------------
def _gen_tree(rng, family, max_junctions, sorted_labels, thermal, kinds, big_labels, many_pi=False):
    gas = family == "gas"
    fluid = rng.choice(GAS_FLUIDS if gas else LIQ_FLUIDS)
    n = rng.randint(2, max(2, max_junctions))
    if many_pi:
        n = max(n, min(5, max_junctions))
    jl = _labels(rng, n, sorted_labels, big=big_labels)
    cnt = _Counter(rng, sorted_labels)
    all_kinds = ["pipe_std", "valve", "pump", "compressor", "flow_control", "press_control",
                 "heat_exchanger", "mass_storage", "source", "second_feeder", "valve_pi",
                 "heights", "sections", "closed_valve", "oos", "nan_load", "trickle", "split_feeder", "standby"]
    if kinds is None:
        k = rng.randint(0, len(all_kinds))
        kinds = set(rng.sample(all_kinds, k))
    else:
        kinds = set(kinds)
    if many_pi:
        kinds.add("valve_pi")
    if thermal is None:
        thermal = rng.random() < 0.5
    ops = []
    p0 = _r(rng, 2.0, 16.0, 2) if gas else _r(rng, 4.0, 10.0, 2)
    t0 = _r(rng, 283.0, 303.0, 1) if gas else _r(rng, 293.0, 353.0, 1)
    for i, j in enumerate(jl):
        kw = {"pn_bar": p0, "tfluid_k": t0, "index": j, "name": "j%d" % i}
        if "heights" in kinds and not gas:
            kw["height_m"] = _r(rng, 0.0, 15.0, 1)
        elif "heights" in kinds:
            kw["height_m"] = _r(rng, 0.0, 40.0, 1)
        ops.append({"fn": "create_junction", "kw": kw})
    if "split_feeder" in kinds:
        # pressure and temperature fixed by two separate external grids at the same junction
        ops.append({"fn": "create_ext_grid", "kw": {"junction": jl[0], "p_bar": p0, "index": cnt.new("ext_grid"), "type": "p"}})
        ops.append({"fn": "create_ext_grid", "kw": {"junction": jl[0], "t_k": t0, "index": cnt.new("ext_grid"), "type": "t"}})
        feeders = [("ext_grid", ops[-2]["kw"]["index"]), ("ext_grid", ops[-1]["kw"]["index"])]
        t_feeders = [("ext_grid", ops[-1]["kw"]["index"])]
    else:
        ops.append({"fn": "create_ext_grid", "kw": {"junction": jl[0], "p_bar": p0, "t_k": t0,
                                                    "index": cnt.new("ext_grid"), "type": "pt"}})
        feeders = [("ext_grid", ops[-1]["kw"]["index"])]
        t_feeders = list(feeders)
    meta = {"family": family, "fluid": fluid, "junctions": list(jl), "loads": [], "branches": [],
            "thermal": bool(thermal), "feeders": feeders, "t_feeders": t_feeders,
            "toggles": [], "kinds": sorted(kinds)}
    special_budget = 2
    pipes = []
    for i in range(1, n):
        a = jl[rng.randrange(0, i)]
        b = jl[i]
        choice = "pipe"
        if special_budget > 0 and rng.random() < 0.35:
            cands = []
            if "valve" in kinds:
                cands.append("valve")
            if "flow_control" in kinds and i == n - 1:
                cands.append("flow_control")
            if "heat_exchanger" in kinds:
                cands.append("heat_exchanger")
            if gas and "compressor" in kinds:
                cands.append("compressor")
            if (not gas) and "pump" in kinds:
                cands.append("pump")
            if "press_control" in kinds:
                cands.append("press_control")
            if cands:
                choice = rng.choice(cands)
                special_budget -= 1
        if choice == "pipe":
            idx = cnt.new("pipe")
            secs = rng.randint(2, 4) if "sections" in kinds and rng.random() < 0.5 else 1
            length = _r(rng, 0.05, 1.5, 3)
            if "pipe_std" in kinds and rng.random() < 0.5:
                kw = {"from_junction": a, "to_junction": b, "std_type": rng.choice(PIPE_STD_TYPES),
                      "length_km": length, "sections": secs, "index": idx,
                      "text_k": _r(rng, 273.0, 293.0, 1), "u_w_per_m2k": _r(rng, 0.0, 3.0, 2),
                      "k_mm": rng.choice([0.05, 0.1, 0.2, 0.5])}
                ops.append({"fn": "create_pipe", "kw": kw})
            else:
                kw = {"from_junction": a, "to_junction": b, "length_km": length,
                      "inner_diameter_mm": rng.choice([80.0, 100.0, 150.0, 200.0, 300.0]),
                      "k_mm": rng.choice([0.05, 0.1, 0.2, 0.5]), "sections": secs,
                      "u_w_per_m2k": _r(rng, 0.0, 5.0, 2), "text_k": _r(rng, 273.0, 293.0, 1),
                      "loss_coefficient": rng.choice([0.0, 0.0, 0.5, 2.0]), "index": idx}
                if rng.random() < 0.3:
                    kw["outer_diameter_mm"] = kw["inner_diameter_mm"] + 10.0
                ops.append({"fn": "create_pipe_from_parameters", "kw": kw})
            pipes.append((idx, a, b))
            meta["branches"].append(("pipe", idx))
        elif choice == "valve":
            idx = cnt.new("valve")
            ops.append({"fn": "create_valve", "kw": {
                "junction": a, "element": b, "et": "ju", "inner_diameter_mm": rng.choice([80.0, 150.0]),
                "opened": True, "loss_coefficient": rng.choice([0.5, 2.0]), "index": idx}})
            meta["branches"].append(("valve", idx))
            meta["toggles"].append(("valve", idx, "opened"))
        elif choice == "flow_control":
            idx = cnt.new("flow_control")
            ops.append({"fn": "create_flow_control", "kw": {
                "from_junction": a, "to_junction": b,
                "controlled_mdot_kg_per_s": _r(rng, 0.001, 0.02, 4) if gas else _r(rng, 0.1, 1.0, 3),
                "index": idx}})
            meta["branches"].append(("flow_control", idx))
            meta["fc_leaf"] = b
        elif choice == "heat_exchanger":
            idx = cnt.new("heat_exchanger")
            ops.append({"fn": "create_heat_exchanger", "kw": {
                "from_junction": a, "to_junction": b, "qext_w": _r(rng, -2000.0, 5000.0, 1),
                "inner_diameter_mm": rng.choice([100.0, 200.0]),
                "loss_coefficient": rng.choice([0.5, 1.0]), "index": idx}})
            meta["branches"].append(("heat_exchanger", idx))
        elif choice == "compressor":
            idx = cnt.new("compressor")
            ops.append({"fn": "create_compressor", "kw": {
                "from_junction": a, "to_junction": b, "pressure_ratio": _r(rng, 1.05, 1.5, 3),
                "index": idx}})
            meta["branches"].append(("compressor", idx))
            meta.setdefault("must_load", []).append(b)
        elif choice == "pump":
            idx = cnt.new("pump")
            ops.append({"fn": "create_pump", "kw": {
                "from_junction": a, "to_junction": b, "std_type": rng.choice(PUMP_STD_TYPES),
                "index": idx}})
            meta["branches"].append(("pump", idx))
            meta.setdefault("must_load", []).append(b)
        elif choice == "press_control":
            idx = cnt.new("press_control")
            ops.append({"fn": "create_pressure_control", "kw": {
                "from_junction": a, "to_junction": b, "controlled_junction": b,
                "controlled_p_bar": round(p0 * rng.uniform(0.6, 0.95), 3), "index": idx}})
            meta["branches"].append(("press_control", idx))
    # stand-by twin: an out-of-service element of the same kind with other parameters in parallel to a machine /
    # exchanger / controller (row order then decides whether the idle one comes first in its table)
    if "standby" in kinds:
        for o in list(ops):
            if o["fn"] in ("create_pump", "create_compressor", "create_heat_exchanger", "create_flow_control") and rng.random() < 0.8:
                kw = dict(o["kw"])
                t_ = TABLE_OF_FN[o["fn"]]
                kw["index"] = cnt.new(t_)
                kw["in_service"] = False
                if o["fn"] == "create_pump":
                    kw["std_type"] = rng.choice([p_ for p_ in PUMP_STD_TYPES if p_ != o["kw"]["std_type"]])
                elif o["fn"] == "create_compressor":
                    kw["pressure_ratio"] = round(o["kw"]["pressure_ratio"] + 0.2, 3)
                elif o["fn"] == "create_heat_exchanger":
                    kw["qext_w"] = round(o["kw"]["qext_w"] * 2 + 100.0, 1)
                else:
                    kw["controlled_mdot_kg_per_s"] = round(o["kw"]["controlled_mdot_kg_per_s"] * 3, 4)
                # half of the time the idle twin is created first (comes first in the table)
                pos = ops.index(o) if rng.random() < 0.5 else len(ops)
                ops.insert(pos, {"fn": o["fn"], "kw": kw})
                meta["toggles"].append((t_, kw["index"], "in_service")) if o["fn"] == "create_heat_exchanger" else None
    # mesh closers / parallel pipes
    nclose = rng.choice([0, 0, 1, 1, 2, 3]) if n >= 3 else rng.choice([0, 0, 1])
    for _ in range(nclose):
        a, b = rng.sample(jl, 2) if n >= 2 else (jl[0], jl[0])
        idx = cnt.new("pipe")
        ops.append({"fn": "create_pipe_from_parameters", "kw": {
            "from_junction": a, "to_junction": b, "length_km": _r(rng, 0.05, 1.0, 3),
            "inner_diameter_mm": rng.choice([80.0, 100.0, 150.0]), "k_mm": 0.1,
            "u_w_per_m2k": _r(rng, 0.0, 5.0, 2), "text_k": _r(rng, 273.0, 293.0, 1),
            "sections": 1, "index": idx}})
        pipes.append((idx, a, b))
        meta["branches"].append(("pipe", idx))
    # junction-pipe valve
    if "valve_pi" in kinds and pipes:
        # one to four valves at pipe ends (distinct junction-pipe pairs, not at both ends of the same pipe)
        chosen = rng.sample(pipes, min(len(pipes), rng.choice([3, 4] if many_pi else [1, 1, 2, 3, 4])))
        for (pidx, a, b) in chosen:
            if a == b:
                continue
            idx = cnt.new("valve")
            ops.append({"fn": "create_valve", "kw": {
                "junction": rng.choice([a, b]), "element": pidx, "et": "pi",
                "inner_diameter_mm": rng.choice([80.0, 100.0]), "opened": True, "loss_coefficient": rng.choice([0.0, 0.5]),
                "index": idx}})
            meta["toggles"].append(("valve", idx, "opened"))
    # loads
    nl = rng.randint(1, max(1, min(4, n - 1)))
    load_js = [jl[rng.randrange(1, n)] for _ in range(nl)]
    # a pump / compressor feeding a dead end sits exactly on the zero-flow discontinuity of its
    # characteristic (shut-off head vs. no lift for reverse flow): give its outlet a consumer
    for j in meta.get("must_load", []):
        if j not in load_js:
            load_js.append(j)
    if "fc_leaf" in meta:
        load_js = [j for j in load_js if j != meta["fc_leaf"]] + [meta["fc_leaf"]]
    for j in load_js:
        idx = cnt.new("sink")
        if j == meta.get("fc_leaf"):
            # the leaf behind a flow controller must consume exactly what the controller passes
            fc = [o for o in ops if o["fn"] == "create_flow_control"][0]
            mdot = fc["kw"]["controlled_mdot_kg_per_s"]
            ops.append({"fn": "create_sink", "kw": {"junction": j, "mdot_kg_per_s": mdot, "index": idx}})
            continue
        mdot = _r(rng, 0.0005, 0.02, 5) if gas else _r(rng, 0.05, 2.0, 4)
        kw = {"junction": j, "mdot_kg_per_s": mdot, "index": idx}
        if rng.random() < 0.3:
            kw["scaling"] = rng.choice([0.5, 1.5, 2.0])
        ops.append({"fn": "create_sink", "kw": kw})
        meta["loads"].append(("sink", idx, "mdot_kg_per_s", mdot))
    sink_ops = [o for o in ops if o["fn"] == "create_sink"]
    if "source" in kinds and sink_ops:
        idx = cnt.new("source")
        so = rng.choice(sink_ops)
        mdot = round(so["kw"]["mdot_kg_per_s"] * so["kw"].get("scaling", 1.0) * rng.uniform(0.1, 0.6), 6)
        ops.append({"fn": "create_source", "kw": {"junction": so["kw"]["junction"],
                                                  "mdot_kg_per_s": mdot, "index": idx}})
        meta["loads"].append(("source", idx, "mdot_kg_per_s", mdot))
    if "mass_storage" in kinds and sink_ops:
        idx = cnt.new("mass_storage")
        so = rng.choice(sink_ops)
        mdot = round(so["kw"]["mdot_kg_per_s"] * rng.uniform(-0.3, 0.8), 6)
        ops.append({"fn": "create_mass_storage", "kw": {"junction": so["kw"]["junction"],
                                                        "mdot_kg_per_s": mdot, "index": idx}})
        meta["loads"].append(("mass_storage", idx, "mdot_kg_per_s", mdot))
    # radial net (no mesh closer, one feeder): every branch flow is the sum of the loads behind it, exactly
    radial = nclose == 0 and not ("second_feeder" in kinds and n >= 3)
    meta["radial"] = bool(radial)
    if radial and "trickle" in kinds:
        # a leaf that draws a trickle (between the kernels' zero-flow threshold of 1e-10 kg/s and anything a
        # solver tolerance could blur): its supply branch is "flowing" for both engines
        parents = {o["kw"].get("from_junction", o["kw"].get("junction")) for o in ops if o["fn"] not in ("create_junction", "create_ext_grid", "create_sink")}
        leaf_sinks = [o for o in ops if o["fn"] == "create_sink" and o["kw"]["junction"] not in parents
                      and o["kw"]["junction"] not in meta.get("must_load", []) and o["kw"]["junction"] != meta.get("fc_leaf")
                      and sum(1 for o2 in ops if o2["fn"] in ("create_sink", "create_source", "create_mass_storage") and o2["kw"]["junction"] == o["kw"]["junction"]) == 1]
        if leaf_sinks:
            so = rng.choice(leaf_sinks)
            so["kw"]["mdot_kg_per_s"] = rng.choice([5e-9, 2e-9, 8e-9])
            so["kw"].pop("scaling", None)
            meta["loads"] = [l for l in meta["loads"] if not (l[0] == "sink" and l[1] == so["kw"]["index"])]
            meta["trickle_sink"] = so["kw"]["index"]
    if "nan_load" in kinds:
        # a consumer / feed-in without a value: documented to count as zero flow
        idx = cnt.new("sink")
        ops.append({"fn": "create_sink", "kw": {"junction": jl[rng.randrange(0, n)], "mdot_kg_per_s": float("nan"),
                                                "index": idx}})
        if rng.random() < 0.5:
            idx = cnt.new("source")
            ops.append({"fn": "create_source", "kw": {"junction": jl[rng.randrange(0, n)],
                                                      "mdot_kg_per_s": float("nan"), "index": idx}})
    if "second_feeder" in kinds and n >= 3:
        idx = cnt.new("ext_grid")
        ops.append({"fn": "create_ext_grid", "kw": {
            "junction": jl[rng.randrange(1, n)], "p_bar": round(p0 * rng.uniform(0.9, 1.0), 3),
            "index": idx, "type": "p"}})
        meta["feeders"].append(("ext_grid", idx))
    # out-of-service / closed elements (set through the program so the twin has them too)
    if "oos" in kinds and len(pipes) >= 2:
        pidx = pipes[-1][0]
        for o in ops:
            if o["fn"].startswith("create_pipe") and o["kw"]["index"] == pidx:
                o["kw"]["in_service"] = False
    if "closed_valve" in kinds:
        for o in ops:
            if o["fn"] == "create_valve" and rng.random() < 0.5:
                o["kw"]["opened"] = False
    for (t, i) in meta["branches"]:
        if t == "pipe":
            meta["toggles"].append(("pipe", i, "in_service"))
    program = {"fluid": fluid, "name": "gen-%s" % family, "ops": ops}
    return program, meta


# ------------------------------------------------------------------------------------------
def _gen_heat(rng, max_junctions, sorted_labels, kinds, big_labels):
    """Flow line f0..fk, return line r0..rk, consumers between f_i and r_i, circulation pump
    from r0 to f0."""
    k = rng.randint(1, max(1, min(4, max_junctions // 2)))
    nj = 2 * (k + 1)
    jl = _labels(rng, nj, sorted_labels, big=big_labels)
    fl, rl = jl[:k + 1], jl[k + 1:]
    cnt = _Counter(rng, sorted_labels)
    all_kinds = ["hc_modes", "heat_exchanger", "circ_mass", "sections", "ext_grid_feed", "valve",
                 "flow_control", "closed_valve", "standby", "no_tflow"]
    if kinds is None:
        kinds = set(rng.sample(all_kinds, rng.randint(0, len(all_kinds))))
    else:
        kinds = set(kinds)
    ops = []
    p0 = _r(rng, 5.0, 10.0, 2)
    tflow = _r(rng, 340.0, 370.0, 1)
    for i, j in enumerate(jl):
        ops.append({"fn": "create_junction", "kw": {"pn_bar": p0, "tfluid_k": tflow if i <= k else tflow - 30,
                                                    "index": j, "name": "j%d" % i}})
    meta = {"family": "heat", "fluid": "water", "junctions": list(jl), "loads": [], "branches": [],
            "thermal": True, "feeders": [], "toggles": [], "kinds": sorted(kinds)}
    total_mdot = 0.0
    consumers = []
    for i in range(1, k + 1):
        # flow pipe f_{i-1} -> f_i and return pipe r_i -> r_{i-1}
        for (a, b) in ((fl[i - 1], fl[i]), (rl[i], rl[i - 1])):
            idx = cnt.new("pipe")
            secs = rng.randint(2, 4) if "sections" in kinds and rng.random() < 0.5 else 1
            ops.append({"fn": "create_pipe_from_parameters", "kw": {
                "from_junction": a, "to_junction": b, "length_km": _r(rng, 0.05, 0.8, 3),
                "inner_diameter_mm": rng.choice([80.0, 100.0, 150.0]), "k_mm": 0.1,
                "u_w_per_m2k": _r(rng, 0.0, 3.0, 2), "text_k": _r(rng, 273.0, 293.0, 1),
                "sections": secs, "index": idx}})
            meta["branches"].append(("pipe", idx))
    hc_mode_pool = ["mdot_q"]
    if "hc_modes" in kinds:
        hc_mode_pool = ["mdot_q", "mdot_dt", "mdot_tr", "q_dt", "q_tr"]
    no_tflow = "no_tflow" in kinds and rng.random() < 0.3
    if no_tflow:
        hc_mode_pool = [m_ for m_ in hc_mode_pool if m_.startswith("mdot")]
    for i in range(0 if k == 0 else 1, k + 1):
        a, b = fl[i], rl[i]
        if "heat_exchanger" in kinds and rng.random() < 0.3 and i != k:
            # a heat exchanger needs someone to draw flow through it: put a flow controller in series?
            # keep it simple: exchanger in parallel branch needs a pressure difference -> fine
            idx = cnt.new("heat_exchanger")
            ops.append({"fn": "create_heat_exchanger", "kw": {
                "from_junction": a, "to_junction": b, "qext_w": _r(rng, 500.0, 5000.0, 1),
                "inner_diameter_mm": 20.0, "loss_coefficient": 50.0, "index": idx}})
            meta["branches"].append(("heat_exchanger", idx))
            continue
        idx = cnt.new("heat_consumer")
        mode = rng.choice(hc_mode_pool)
        mdot = _r(rng, 0.2, 1.5, 3)
        q = _r(rng, 5000.0, 40000.0, 0)
        kw = {"from_junction": a, "to_junction": b, "index": idx}
        if mode == "mdot_q":
            kw.update(controlled_mdot_kg_per_s=mdot, qext_w=q)
        elif mode == "mdot_dt":
            kw.update(controlled_mdot_kg_per_s=mdot, deltat_k=_r(rng, 5.0, 25.0, 1))
        elif mode == "mdot_tr":
            kw.update(controlled_mdot_kg_per_s=mdot, treturn_k=_r(rng, 300.0, 325.0, 1))
        elif mode == "q_dt":
            kw.update(qext_w=q, deltat_k=_r(rng, 8.0, 25.0, 1))
        elif mode == "q_tr":
            kw.update(qext_w=q, treturn_k=_r(rng, 300.0, 320.0, 1))
        ops.append({"fn": "create_heat_consumer", "kw": kw})
        meta["branches"].append(("heat_consumer", idx))
        consumers.append((idx, mode))
        if mode.startswith("mdot"):
            meta["loads"].append(("heat_consumer", idx, "controlled_mdot_kg_per_s", mdot))
            total_mdot += mdot
        meta["loads"].append(("heat_consumer", idx, "qext_w", q)) if "qext_w" in kw else None
    meta["hc_modes"] = [m for (_, m) in consumers]
    # bypass at the far end (valve between flow and return line): the one path whose flow is not prescribed
    bypass = None
    if "valve" in kinds or "circ_mass" in kinds:
        bypass = cnt.new("valve")
        ops.append({"fn": "create_valve", "kw": {
            "junction": fl[k], "element": rl[k], "et": "ju", "inner_diameter_mm": rng.choice([10.0, 15.0]),
            "opened": True, "loss_coefficient": rng.choice([5.0, 20.0]), "index": bypass}})
        meta["branches"].append(("valve", bypass))
    # feeder
    if "circ_mass" in kinds and bypass is not None:
        # prescribed total mass flow: consumers take their share, the rest passes the (always open) bypass
        idx = cnt.new("circ_pump_mass")
        ops.append({"fn": "create_circ_pump_const_mass_flow", "kw": {
            "return_junction": rl[0], "flow_junction": fl[0], "p_flow_bar": p0,
            "mdot_flow_kg_per_s": round(total_mdot * 1.2 + _r(rng, 0.3, 1.5, 3), 3), "t_flow_k": tflow, "index": idx,
            "type": "auto"}})
        meta["feeders"].append(("circ_pump_mass", idx))
    else:
        idx = cnt.new("circ_pump_pressure")
        ops.append({"fn": "create_circ_pump_const_pressure", "kw": {
            "return_junction": rl[0], "flow_junction": fl[0], "p_flow_bar": p0,
            "plift_bar": _r(rng, 0.5, 3.0, 2), "t_flow_k": tflow, "index": idx, "type": "auto"}})
        meta["feeders"].append(("circ_pump_pressure", idx))
        if bypass is not None:
            meta["toggles"].append(("valve", bypass, "opened"))
            if "closed_valve" in kinds and rng.random() < 0.5:
                ops[[i for i, o in enumerate(ops) if o["fn"] == "create_valve"][0]]["kw"]["opened"] = False
    if no_tflow:
        # a circulation pump without flow temperature (type "p"): such a loop has no temperature source, it is a
        # hydraulics-only world (the pump's outlet temperature is taken over from its flow junction)
        ops[-1]["kw"].pop("t_flow_k", None)
        meta["thermal"] = False
    if "standby" in kinds:
        # an idle second circulation pump next to the running one (created before or after it)
        feed = [o for o in ops if o["fn"].startswith("create_circ_pump")][-1]
        kw = dict(feed["kw"])
        t_ = "circ_pump_mass" if feed["fn"] == "create_circ_pump_const_mass_flow" else "circ_pump_pressure"
        kw["index"] = cnt.new(t_)
        kw["in_service"] = False
        if "plift_bar" in kw:
            kw["plift_bar"] = round(kw["plift_bar"] + 0.5, 2)
        else:
            kw["mdot_flow_kg_per_s"] = round(kw["mdot_flow_kg_per_s"] * 1.5, 3)
        if rng.random() < 0.4:
            kw.pop("t_flow_k", None)
        pos = ops.index(feed)
        ops.insert(pos if rng.random() < 0.5 else pos + 1, {"fn": feed["fn"], "kw": kw})
    for (t, i) in meta["branches"]:
        if t == "heat_consumer" and len(consumers) > 1:
            meta["toggles"].append(("heat_consumer", i, "in_service"))
    meta["needs_bidirectional"] = any(m in ("q_dt", "q_tr") for (_, m) in consumers) and meta["thermal"]
    program = {"fluid": "water", "name": "gen-heat", "ops": ops}
    return program, meta
