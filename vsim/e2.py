"""Engine E2 - the Newton iteration driver in isolation (C05c).

The real ``newton_raphson`` / ``finalize_iteration`` / ``set_damping_factor`` are driven through
their existing seam - the ``funct`` parameter - by a scripted per-iteration solve that keeps its
state in ``net["_active_pit"]`` exactly like the real solves do (so step rejection is honoured).
One run = a batch of scripted cases; every case is a bounded sequence of per-iteration raw Newton
steps and residuals drawn around the tolerances (below / at / above, NaN, inf; decreasing, stalling,
oscillating, increasing, late blow-up), for both damping methods, several initial alphas, budgets
0..8 (thorough tier: up to 16) and the three variable layouts (hydraulics, heat, bidirectional).

Oracle = the property, evaluated on what the scripted solve actually did in the last executed
iteration: converged  =>  every returned unknown group changed by <= its tolerance, residual <=
tol_res, nothing NaN/inf, and (automatic damping) the step was taken with alpha == 1.
Plus: iterations <= budget, alpha stays in (0, 1], bookkeeping in _internal_results.
"""
import random

import numpy as np
from pandapower.auxiliary import ADict

from pandapipes import pipeflow as _pf_func  # noqa: F401
import sys
from pandapipes.idx_branch import MDOTINIT, TOUTINIT, branch_cols
from pandapipes.idx_node import PINIT, TINIT, MDOTSLACKINIT, node_cols

from .core import RunResult

PF = sys.modules["pandapipes.pipeflow"]
ENGINE = "e2"
SHRINK_LISTS = [("ops",)]
REAL = ["pandapipes.pipeflow.newton_raphson / finalize_iteration / set_damping_factor (real code)"]
STUB = ["per-iteration solve function (scripted funct passed through newton_raphson's parameter)"]

LAYOUTS = {
    # name: (mode, solver_vars, tol keys, pit_names, iter_name, returned groups)
    "hyd": ("hydraulics", ["mdot", "p", "mdotslack"], ["tol_m", "tol_p", "tol_m"],
            ["branch", "node", "node"], "max_iter_hyd",
            [("mdot", "branch", MDOTINIT, True, "tol_m"), ("p", "node", PINIT, True, "tol_p"),
             ("mdotslack", "slack", MDOTSLACKINIT, False, "tol_m")]),
    "heat": ("heat", ["Tout", "T"], ["tol_T", "tol_T"], ["branch", "node"], "max_iter_therm",
             [("Tout", "branch", TOUTINIT, True, "tol_T"), ("T", "node", TINIT, True, "tol_T")]),
    "bidir": ("bidirectional", ["mdot", "p", "mdotslack", "TOUT", "T"], ["tol_m", "tol_p", "tol_m", "tol_T", "tol_T"],
              ["branch", "node", "node", "branch", "node"], "max_iter_bidirect",
              [("mdot", "branch", MDOTINIT, True, "tol_m"), ("p", "node", PINIT, True, "tol_p"),
               ("mdotslack", "slack", MDOTSLACKINIT, False, "tol_m"),
               ("Tout", "branch", TOUTINIT, True, "tol_T"), ("T", "node", TINIT, True, "tol_T")]),
}
TOLS = {"tol_m": 1e-5, "tol_p": 1e-5, "tol_T": 1e-3, "tol_res": 1e-3}


def generate(seed, tier, prop):
    rng = random.Random(seed)
    ncases = 150 if tier == "quick" else 400
    cases = [_gen_case(rng, deep=(tier != "quick")) for _ in range(ncases)]
    return {"engine": ENGINE, "prop": prop, "seed": seed, "tier": tier, "ops": cases}


def _mag(rng, tol, kind):
    table = {"below": [0.0, 0.1, 0.5, 0.999], "at": [1.0], "above": [1.0000001, 1.5, 10.0, 1e3, 1e6]}
    return tol * rng.choice(table[kind])


def _gen_case(rng, deep=False):
    layout = rng.choice(["hyd", "hyd", "heat", "bidir", "bidir"])
    groups = LAYOUTS[layout][5]
    method = rng.choice(["constant", "automatic", "automatic"])
    alpha0 = rng.choice([1, 1, 0.5, 0.1, 0.01])
    max_iter = rng.choice([0, 1, 2, 3, 4, 5, 6, 8] + ([10, 12, 16] if deep else []))
    tols = dict(TOLS)
    if rng.random() < 0.3:
        for k in tols:
            tols[k] = rng.choice([1e-8, 1e-5, 1e-2])
    sizes = {"branch": rng.randint(1, 5 if deep else 3), "node": rng.randint(1, 5 if deep else 3)}
    sizes["slack"] = rng.randint(1, sizes["node"])
    pattern = rng.choice(["decreasing", "stalling", "oscillating", "increasing", "late-blowup",
                          "converge-then-one-bad", "random", "nan-once", "all-good"])
    steps = []
    for k in range(max_iter):
        st = {"x": [], "res": None}
        for gi, (name, pit, col, damped, tolk) in enumerate(groups):
            tol = tols[tolk]
            n = sizes[pit]
            if pattern == "decreasing":
                m = tol * 10.0 ** (3 - 2 * k)
            elif pattern == "stalling":
                m = tol * 2.0
            elif pattern == "oscillating":
                m = tol * (5.0 if k % 2 == 0 else 0.5)
            elif pattern == "increasing":
                m = tol * 10.0 ** k
            elif pattern == "late-blowup":
                m = tol * (0.5 if k < max_iter - 1 else 1e6)
            elif pattern == "all-good":
                m = _mag(rng, tol, "below")
            elif pattern == "converge-then-one-bad":
                m = _mag(rng, tol, "below")
            else:
                m = _mag(rng, tol, rng.choice(["below", "below", "at", "above"]))
            vec = [round(m * rng.choice([1.0, -1.0, 0.3, 0.0]), 18) for _ in range(n)]
            if vec and all(v == 0 for v in vec) and m:
                vec[0] = m
            st["x"].append(vec)
        # the residual is a vector (in bidirectional mode the hydraulic and the thermal residual concatenated)
        nres = rng.choice([1, 2, 3])
        st["res"] = [_mag(rng, tols["tol_res"], rng.choice(["below", "below", "below", "at", "above"]))] + \
            [_mag(rng, tols["tol_res"], "below") for _ in range(nres - 1)]
        if pattern == "all-good":
            st["res"] = [_mag(rng, tols["tol_res"], "below") for _ in range(nres)]
        steps.append(st)
    # targeted corruptions: exactly one group out of tolerance / NaN / inf at some iteration
    if steps and pattern in ("converge-then-one-bad", "nan-once") or (steps and rng.random() < 0.3):
        k = rng.randrange(len(steps)) if rng.random() < 0.5 else len(steps) - 1
        gi = rng.randrange(len(groups))
        tol = tols[groups[gi][4]]
        what = rng.choice(["above", "nan", "inf", "res-above", "res-nan"]) if pattern != "nan-once" else rng.choice(["nan", "res-nan", "inf"])
        if what == "above":
            steps[k]["x"][gi][0] = tol * rng.choice([1.0000001, 2.0, 50.0])
        elif what == "nan":
            steps[k]["x"][gi][0] = float("nan")
        elif what == "inf":
            steps[k]["x"][gi][0] = float("inf")
        elif what == "res-above":
            steps[k]["res"][rng.randrange(len(steps[k]["res"]))] = tols["tol_res"] * rng.choice([1.0000001, 3.0])
        else:
            # one entry of the residual vector is NaN (e.g. the thermal part), the others are fine
            steps[k]["res"][rng.randrange(len(steps[k]["res"]))] = float("nan")
    return {"layout": layout, "method": method, "alpha0": alpha0, "max_iter": max_iter, "tols": tols,
            "sizes": sizes, "pattern": pattern, "steps": steps}


# ------------------------------------------------------------------------------------------
class _Script:
    def __init__(self, case):
        self.case = case
        self.k = 0
        self.trail = []  # per call: dict(alpha, errs{name: value}, res)

    def __call__(self, net):
        case = self.case
        groups = LAYOUTS[case["layout"]][5]
        st = case["steps"][self.k] if self.k < len(case["steps"]) else case["steps"][-1]
        alpha = net["_options"]["alpha"]
        slack = np.arange(case["sizes"]["slack"])
        results, filtered, errs = [], [], {}
        for gi, (name, pit, col, damped, tolk) in enumerate(groups):
            arr = net["_active_pit"]["node" if pit in ("node", "slack") else "branch"]
            rows = slack if pit == "slack" else slice(None)
            old = arr[rows, col].copy()
            x = np.array(st["x"][gi], dtype=np.float64)
            arr[rows, col] -= x * (alpha if damped else 1.0)
            new = arr[rows, col]
            results += [new, old]
            d = new - old
            errs[name] = float(np.max(np.abs(d))) if len(d) else 0.0
        if case["layout"] == "hyd":
            filtered = [None, None, slack]
        elif case["layout"] == "heat":
            filtered = [None, None]
        else:
            filtered = [None, None, slack, None, None]
        res = np.array(st["res"], dtype=np.float64)
        self.trail.append({"alpha": alpha, "errs": errs, "res": float(np.max(np.abs(res)))})
        self.k += 1
        return results, res, filtered


_PRODUCTION = {}


def _production_bidirectional_layout():
    """The names / tolerance keys / pit names that the real bidirectional() hands to the Newton driver, captured by
    calling it on a dummy net with the driver replaced by a recorder (so that a change of that call is driven through
    the scripted solve as well).  None if it cannot be captured."""
    if "bidir" in _PRODUCTION:
        return _PRODUCTION["bidir"]
    got = {}
    marks = {"tol_m": 0.123, "tol_p": 0.234, "tol_T": 0.345}

    def recorder(net, funct, mode, solver_vars, tols, pit_names, iter_name):
        got.update(mode=mode, solver_vars=list(solver_vars), tols=list(tols), pit_names=list(pit_names), iter_name=iter_name)
    net = ADict()
    net["_options"] = dict(marks, tol_res=1.0, reuse_internal_data=False, nonlinear_method="constant", alpha=1, max_iter_bidirect=1)
    net["converged"] = False
    net["user_pf_options"] = {}
    real = PF.newton_raphson
    PF.newton_raphson = recorder
    try:
        PF.bidirectional(net)
    except Exception:
        pass
    finally:
        PF.newton_raphson = real
    out = None
    if got.get("solver_vars") and len(got["solver_vars"]) == len(got["tols"]) == len(got["pit_names"]):
        inv = {v: k for k, v in marks.items()}
        try:
            out = (got["solver_vars"], [inv[t] for t in got["tols"]], got["pit_names"], got["iter_name"])
        except KeyError:
            out = None
    _PRODUCTION["bidir"] = out
    return out


def run_case(case):
    """Returns (list of (sig, detail), info dict)."""
    layout = case["layout"]
    mode, solver_vars, tolkeys, pit_names, iter_name, groups = LAYOUTS[layout]
    if layout == "bidir":
        prod = _production_bidirectional_layout()
        if prod is not None:
            solver_vars, tolkeys, pit_names, iter_name = prod
    net = ADict()
    opts = {"alpha": case["alpha0"], "nonlinear_method": case["method"], "tol_res": case["tols"]["tol_res"],
            iter_name: case["max_iter"]}
    opts.update(case["tols"])
    net["_options"] = opts
    net["converged"] = False
    net["_active_pit"] = {"node": np.zeros((case["sizes"]["node"], node_cols)),
                          "branch": np.zeros((case["sizes"]["branch"], branch_cols))}
    script = _Script(case)
    tols = [case["tols"][k] for k in tolkeys]
    out = []
    try:
        PF.newton_raphson(net, script, mode, list(solver_vars), tols, list(pit_names), iter_name)
    except Exception as e:  # the driver itself must not crash on NaN/inf patterns
        out.append(("C05/driver-crashed:%s@%s" % (type(e).__name__, layout), repr(e)[:200]))
        return out, {"iters": script.k, "converged": None}
    iters = script.k
    conv = bool(net["converged"])
    if iters > case["max_iter"]:
        out.append(("C05/driver-budget-exceeded@%s" % layout, "%d > %d" % (iters, case["max_iter"])))
    a = net["_options"]["alpha"]
    if not (0 < a <= 1):
        out.append(("C05/driver-alpha-out-of-range@%s" % layout, repr(a)))
    if conv:
        if not script.trail:
            out.append(("C05/driver-accepted:no-iteration@%s" % layout, ""))
        else:
            last = script.trail[-1]
            for (name, pit, col, damped, tolk) in groups:
                e = last["errs"][name]
                if not (e <= case["tols"][tolk]):
                    out.append(("C05/driver-accepted:step>tol:%s@%s" % (name, layout),
                                "err=%r tol=%r pattern=%s" % (e, case["tols"][tolk], case["pattern"])))
            if not (last["res"] <= case["tols"]["tol_res"]):
                out.append(("C05/driver-accepted:residual>tol@%s" % layout, "res=%r" % last["res"]))
            if case["method"] == "automatic" and last["alpha"] != 1:
                out.append(("C05/driver-accepted:alpha_used<1@%s" % layout, "alpha=%r" % last["alpha"]))
    else:
        if iters < case["max_iter"]:
            out.append(("C05/driver-stopped-early@%s" % layout, "%d < %d, not converged" % (iters, case["max_iter"])))
    ir = net.get("_internal_results", {})
    for v in solver_vars:
        if len(ir.get(v, [])) != iters:
            out.append(("C05/driver-bookkeeping:errors@%s" % layout, "%s: %r" % (v, ir.get(v))))
            break
    if ir.get("iterations_%s" % mode) != iters:
        out.append(("C05/driver-bookkeeping:iterations@%s" % layout, repr(ir.get("iterations_%s" % mode))))
    return out, {"iters": iters, "converged": conv, "alpha_end": a,
                 "alphas": [t["alpha"] for t in script.trail]}


def execute(trace):
    res = RunResult()
    for ci, case in enumerate(trace["ops"]):
        v, info = run_case(case)
        res.calcs += 1
        res.sim_steps += info.get("iters", 0)
        res.oracle_checks += 1
        res.log.add("case", ci, case["layout"], case["method"], case["alpha0"], case["max_iter"],
                    info.get("iters"), info.get("converged"), info.get("alpha_end"))
        sig = "%s:%s:%s:%s" % (case["layout"], case["method"], info.get("converged"),
                               ",".join("%g" % a for a in info.get("alphas", [])))
        res.count("cell:e2:" + sig[:80])
        res.sig_parts.append(sig)
        if info.get("converged"):
            res.count("probe:driver-converged")
        if any(x < 1 for x in info.get("alphas", [])):
            res.count("probe:driver-alpha<1")
        for s, d in v:
            res.violate("C05", s, d, ci)
    res.nontrivial = True
    return res


def simplify(trace):
    """Shrink inside a single remaining case: drop trailing/leading iterations, zero vectors."""
    ops = trace["ops"]
    if len(ops) != 1:
        return
    import copy
    case = ops[0]
    for k in range(len(case["steps"])):
        c = copy.deepcopy(case)
        del c["steps"][k]
        c["max_iter"] = max(0, c["max_iter"] - 1)
        t = dict(trace)
        t["ops"] = [c]
        yield t
    for k, st in enumerate(case["steps"]):
        for gi, vec in enumerate(st["x"]):
            if any(v != 0 for v in vec):
                c = copy.deepcopy(case)
                c["steps"][k]["x"][gi] = [0.0] * len(vec)
                t = dict(trace)
                t["ops"] = [c]
                yield t
