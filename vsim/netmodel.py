"""The simulator's own description of a network ("build program") and how to realise it.

A program is JSON:  {"fluid": str, "name": str, "ops": [{"fn": "create_junction", "kw": {...}}, ...]}
Every op carries an explicit ``index`` so references stay stable under reordering.
The description of a *session* net is  program + overlay  where overlay is a list of
(table, index, column, value) edits currently in force.  A *fresh twin* is
``realise(program, overlay)`` - built from the description, never from the net under test.
"""
import numpy as np
import pandas as pd

import pandapipes as pp

RES_PREFIX = "res_"

TABLE_OF = {"create_junction": "junction", "create_sink": "sink", "create_source": "source",
            "create_mass_storage": "mass_storage", "create_ext_grid": "ext_grid",
            "create_heat_exchanger": "heat_exchanger", "create_pipe": "pipe",
            "create_pipe_from_parameters": "pipe", "create_valve": "valve", "create_pump": "pump",
            "create_pump_from_parameters": "pump",
            "create_circ_pump_const_pressure": "circ_pump_pressure",
            "create_circ_pump_const_mass_flow": "circ_pump_mass", "create_compressor": "compressor",
            "create_pressure_control": "press_control", "create_flow_control": "flow_control",
            "create_heat_consumer": "heat_consumer",
            "create_junctions": "junction", "create_sinks": "sink", "create_sources": "source",
            "create_ext_grids": "ext_grid", "create_pipes": "pipe", "create_pipes_from_parameters": "pipe",
            "create_valves": "valve", "create_pressure_controls": "press_control",
            "create_flow_controls": "flow_control", "create_heat_exchangers": "heat_exchanger",
            "create_heat_consumers": "heat_consumer"}


def make_fluid(spec):
    """Custom fluid from a JSON spec {"name", "type", "props": {prop: [kind, ...]}}."""
    from pandapipes.properties.fluids import (Fluid, FluidPropertyConstant, FluidPropertyLinear,
                                              FluidPropertyInterExtra, FluidPropertyPolynominal,
                                              FluidPropertySutherland)
    props = {}
    for name, p in spec["props"].items():
        kind = p[0]
        if kind == "constant":
            props[name] = FluidPropertyConstant(p[1], warn_dependent_variables=bool(p[2]))
        elif kind == "linear":
            props[name] = FluidPropertyLinear(p[1], p[2])
        elif kind == "interextra":
            props[name] = FluidPropertyInterExtra(np.array(p[1], dtype=float), np.array(p[2], dtype=float),
                                                  **({"method": p[3]} if len(p) > 3 else {}))
        elif kind == "polynominal":
            props[name] = FluidPropertyPolynominal(np.array(p[1], dtype=float), np.array(p[2], dtype=float), int(p[3]))
        elif kind == "sutherland":
            props[name] = FluidPropertySutherland(p[1], p[2], p[3])
        else:
            raise ValueError(kind)
    return Fluid(spec["name"], spec["type"], **props)


def build(program):
    kwn = {}
    if program.get("sector"):
        from pandapipes.pandapipes_net import Sector
        kwn["sector"] = Sector(program["sector"])
    if program.get("fluid_spec"):
        net = pp.create_empty_network(name=program.get("name", ""), fluid=make_fluid(program["fluid_spec"]), **kwn)
    else:
        net = pp.create_empty_network(name=program.get("name", ""), fluid=program["fluid"], **kwn)
    for ed in program.get("std_edits", []):
        apply_std_edit(net, ed)
    for k, v in sorted(program.get("entries", {}).items()):
        net[k] = realise_markers(v)
    for op in program["ops"]:
        apply_create(net, op)
    for ex in program.get("extras", []):
        # user-defined column (possibly on a table that stays empty) with its own dtype
        t = ex["table"]
        if t in net and ex["column"] not in net[t].columns:
            fill = {"object": None, "float32": 1.5, "int64": 7}[ex["dtype"]]
            net[t][ex["column"]] = pd.Series([fill] * len(net[t]), index=net[t].index, dtype=ex["dtype"])
    return net


def realise_markers(v):
    """JSON traces cannot hold tuples: {"__tuple__": [...]} stands for one."""
    if isinstance(v, dict):
        if set(v) == {"__tuple__"}:
            return tuple(realise_markers(x) for x in v["__tuple__"])
        return {k: realise_markers(x) for k, x in v.items()}
    if isinstance(v, list):
        return [realise_markers(x) for x in v]
    return v


def apply_std_edit(net, ed):
    """User edits of the standard type library (C15: 'custom ... pump types', std types are part of what is saved)."""
    from pandapipes.std_types.std_type_class import PumpStdType
    kind = ed["kind"]
    if kind == "pipe_change":
        if ed["name"] not in net.std_types["pipe"]:
            return   # (the library of a restricted sector does not hold this type)
        data = dict(net.std_types["pipe"][ed["name"]])
        data.update(ed["data"])
        pp.create_std_type(net, "pipe", ed["name"], data, overwrite=True)
    elif kind == "pipe_new":
        pp.create_std_type(net, "pipe", ed["name"], dict(ed["data"]))
    elif kind == "pipe_delete":
        net.std_types["pipe"].pop(ed["name"], None)
    elif kind == "pump_redefine":
        pp.create_pump_std_type(net, ed["name"], PumpStdType(ed["name"], list(ed["coeffs"])), overwrite=True)
    elif kind == "pump_delete":
        net.std_types["pump"].pop(ed["name"], None)
    else:
        raise ValueError(kind)


def apply_create(net, op):
    fn = getattr(pp, op["fn"])
    kw = dict(op["kw"])
    return fn(net, **kw)


def apply_edit(net, table, index, col, val):
    if table not in net:
        return False
    df = net[table]
    if index not in df.index or col not in df.columns:
        return False  # (only happens in shrunk traces whose creating op was removed)
    dt = df[col].dtype
    if dt == bool:
        val = bool(val)
    elif dt.kind == "f":
        val = float(val)
    elif dt.kind in "iu":
        val = int(val)
    df.at[index, col] = val
    if df[col].dtype != dt:
        df[col] = df[col].astype(dt)
    return True


def realise(program, overlay, fluid_overlay=None):
    net = build(program)
    for (table, index, col, val) in overlay:
        apply_edit(net, table, index, col, val)
    for prop, val in sorted((fluid_overlay or {}).items()):
        apply_fluid_edit(net, prop, val, {})
    return net


def apply_fluid_edit(net, prop, val, originals):
    """In-place change of one property of the net's Fluid object (val None = put the original property back).
    `originals` keeps the property objects that were replaced (per net object)."""
    if val is None:
        if prop in originals:
            net.fluid.add_property(prop, originals.pop(prop), overwrite=True, warn_on_duplicates=False)
        return
    if prop not in originals:
        originals[prop] = net.fluid.all_properties[prop]
    pp.create_constant_property(net, prop, val, overwrite=True, warn_on_duplicates=False)


def result_tables(net):
    return sorted(k for k in net.keys() if k.startswith(RES_PREFIX) and isinstance(net[k], pd.DataFrame))


def element_tables(net):
    out = []
    for k in net.keys():
        if k.startswith("_") or k.startswith(RES_PREFIX):
            continue
        if isinstance(net[k], pd.DataFrame):
            out.append(k)
    return sorted(out)


def any_number_in_results(net):
    """Names of result tables that hold at least one non-NaN number."""
    bad = []
    for t in result_tables(net):
        df = net[t]
        if df.shape[0] == 0 or df.shape[1] == 0:
            continue
        num = df.select_dtypes(include=[np.number])
        if num.size and np.any(~np.isnan(num.values.astype(np.float64))):
            bad.append(t)
    return bad


def results_equal_bitwise(a, b):
    """Compare result tables of two nets bit for bit (NaN == NaN). Returns list of 'table.col'."""
    diffs = []
    ta, tb = result_tables(a), result_tables(b)
    if ta != tb:
        diffs.append("tables:%s" % ",".join(sorted(set(ta) ^ set(tb))))
    for t in sorted(set(ta) & set(tb)):
        da, db = a[t], b[t]
        if list(da.columns) != list(db.columns):
            diffs.append("%s.columns" % t)
            continue
        if not np.array_equal(da.index.values, db.index.values):
            diffs.append("%s.index" % t)
            continue
        for c in da.columns:
            va, vb = da[c].values, db[c].values
            if va.dtype.kind == "f" and vb.dtype.kind == "f":
                same = np.array_equal(va, vb, equal_nan=True)
            else:
                same = len(va) == len(vb) and all(_obj_eq(x, y) for x, y in zip(va, vb))
            if not same:
                diffs.append("%s.%s" % (t, c))
    return diffs


# a flow below this is "numerically flowless" for relative comparisons: with step tolerances of 1e-9 the
# absolute error of a mass flow is ~1e-12..1e-9, i.e. a relative error of 1e-5 or worse for such flows
ZERO_FLOW_ABS = 1e-5
EXACT_ZERO_FLOW_ABS = 1e-13   # radial nets: flows are exact sums of loads, only round-off is "flowless"
ZERO_FLOW_SENSITIVE = ("lambda", "reynolds", "t_from_k", "t_to_k", "t_outlet_k", "normfactor_from", "normfactor_to",
                       "v_from_m_per_s", "v_to_m_per_s", "v_mean_m_per_s", "vdot_norm_m3_per_s", "vdot_m3_per_s")


def flowless_junctions(net, thr_rel=1e-6, thr_abs=1e-5):
    """Junctions whose every attached, calculated branch carries (numerically) no flow: their temperature is
    decided by the sign of a round-off flow, i.e. physically undefined."""
    if "junction" not in net:
        return set()
    touched, flowing = set(), set()
    for t in result_tables(net):
        el = t[4:]
        if el not in net or "mdot_from_kg_per_s" not in net[t] or not len(net[t]):
            continue
        cols = [c for c in ("from_junction", "to_junction", "return_junction", "flow_junction", "junction", "element") if c in net[el]]
        if el == "valve":
            cols = ["junction"] + (["element"] if True else [])
        m = np.abs(net[t]["mdot_from_kg_per_s"].values.astype(np.float64))
        scale = max(np.nanmax(m) if len(m) and not np.all(np.isnan(m)) else 0.0, 1e-3)
        thr = max(thr_rel * scale, thr_abs)
        for pos, idx in enumerate(net[t].index):
            if idx not in net[el].index or np.isnan(m[pos]):
                continue
            js = []
            for c in cols:
                if el == "valve" and c == "element" and net[el].at[idx, "et"] != "ju":
                    continue
                js.append(net[el].at[idx, c])
            touched.update(js)
            if m[pos] >= thr:
                flowing.update(js)
    return touched - flowing
# absolute noise floor per result column family when two *different* floating point programs are
# compared after solves with tol_m = tol_p = 1e-9 (a flowless loop converges only linearly, so its
# circulating flow is decided by the stopping rule: |mdot| <~ 1e-8 kg/s, v = mdot/(rho*A) <~ 1e-5 m/s)
COLUMN_ATOL = (("v_", 1e-5), ("vdot", 1e-6), ("mdot", 1e-7), ("reynolds", 1.0), ("qext", 1e-3),
               ("compr_power", 1e-9))


# quantities computed from the branch mass flow inherit its absolute error (~1e-7 kg/s after the tight solves):
# their relative error is ~1e-7/|mdot|, e.g. 1e-4 for a 1 g/s loop flow in a mesh
FLOW_DERIVED = ("v_", "vdot", "reynolds", "lambda", "dp_friction_loss", "compr_power")
MDOT_ABS_ERR = 2e-7


def flow_rtol(col, mdot_abs, base):
    if not col.startswith(FLOW_DERIVED):
        return base
    return max(base, MDOT_ABS_ERR / max(float(mdot_abs), ZERO_FLOW_ABS))


def _atol_for(col, default):
    for prefix, a in COLUMN_ATOL:
        if col.startswith(prefix):
            return max(a, default)
    return default


def results_close(a, b, rtol=1e-9, atol=1e-12, tables=None, index_map=None, mask_zero_flow=False, skip_junction_t=None,
                  exact_flows=False):
    """Tolerance comparison (different fp programs). index_map: {table: {idx_a: idx_b}}.
    exact_flows: the net is radial, i.e. branch flows are exact sums of loads - only round-off flows (< 1e-13 kg/s)
    count as flowless and flow-derived quantities get no extra relative slack."""
    diffs = []
    ta, tb = result_tables(a), result_tables(b)
    for t in sorted(set(ta) | set(tb)):
        if tables is not None and t not in tables:
            continue
        if t not in a or t not in b:
            diffs.append("%s:missing" % t)
            continue
        da, db = a[t], b[t]
        if sorted(da.columns) != sorted(db.columns):
            diffs.append("%s.columns" % t)
            continue
        if index_map is not None and t in index_map:
            m = index_map[t]
            try:
                db = db.loc[[m[i] for i in da.index]]
            except KeyError:
                diffs.append("%s.index" % t)
                continue
        elif len(da) != len(db):
            diffs.append("%s.len" % t)
            continue
        zero_rows = None
        if mask_zero_flow and "mdot_from_kg_per_s" in da.columns:
            # friction factor / Reynolds number of a branch without flow are 0/0-like quantities:
            # round-off decides them, so they are not compared on (numerically) flowless rows
            ma = np.abs(da["mdot_from_kg_per_s"].values.astype(np.float64))
            mb = np.abs(db["mdot_from_kg_per_s"].values.astype(np.float64))
            scale = max(np.nanmax(ma) if len(ma) and not np.all(np.isnan(ma)) else 0.0, 1e-3)
            thr = max(1e-6 * scale, ZERO_FLOW_ABS) if not exact_flows else EXACT_ZERO_FLOW_ABS
            zero_rows = (ma < thr) | (mb < thr)
        for c in da.columns:
            va = da[c].values.astype(np.float64)
            vb = db[c].values.astype(np.float64)
            if t == "res_junction" and c == "t_k" and skip_junction_t:
                keep = ~np.isin(da.index.values, list(skip_junction_t))
                va, vb = va[keep], vb[keep]
            if zero_rows is not None and c in ZERO_FLOW_SENSITIVE:
                va = va[~zero_rows]
                vb = vb[~zero_rows]
            nan_a, nan_b = np.isnan(va), np.isnan(vb)
            if not np.array_equal(nan_a, nan_b):
                diffs.append("%s.%s:nanpattern" % (t, c))
                continue
            col_atol = atol
            if mask_zero_flow:
                # grouped sums are cumsum differences over the whole table: absolute error ~ eps * column max
                fin = np.concatenate([np.abs(da[c].values.astype(np.float64)), np.abs(db[c].values.astype(np.float64))])
                fin = fin[np.isfinite(fin)]
                col_atol = max(_atol_for(c, atol), 1e-12 * (fin.max() if len(fin) else 0.0))
            rt = rtol
            if mask_zero_flow and "mdot_from_kg_per_s" in da.columns and c.startswith(FLOW_DERIVED) and len(va) == len(da):
                mm = np.minimum(np.abs(da["mdot_from_kg_per_s"].values.astype(np.float64)), np.abs(db["mdot_from_kg_per_s"].values.astype(np.float64)))
                rt = np.maximum(rtol, (MDOT_ABS_ERR if not exact_flows else 1e-15) / np.maximum(mm, ZERO_FLOW_ABS if not exact_flows else EXACT_ZERO_FLOW_ABS))[~nan_a]
            x_, y_ = va[~nan_a], vb[~nan_b]
            ok = np.abs(x_ - y_) <= col_atol + rt * np.abs(y_)
            if not np.all(ok):
                diffs.append("%s.%s" % (t, c))
    return diffs


def _obj_eq(x, y):
    if isinstance(x, float) and isinstance(y, float) and np.isnan(x) and np.isnan(y):
        return True
    try:
        return bool(x == y)
    except Exception:
        return False
