"""Engine E3 - the discrete-time scheduler: run_timeseries / run_control on a net with controllers
(single net: C13, C15-with-controllers; multinet worlds live in e3m.py).

World: generated net + 1..3 ConstControls fed by a seeded profile device (SimData, a DFData that
also advances the simulator's virtual clock), explicit OutputWriter (no disk), optional observer
controller.  1..2 consecutive time-series runs over random subsets / orders of the time steps, with
continue_on_divergence on or off.  Faults: infeasible profile values at chosen steps, NaN from the
linear solver in the k-th calculation of a run, too small budgets.

Oracle (scheduler model + fresh twin): for every executed step t a brand-new net built from the
simulator's description, carrying step t's profile values, is calculated once stand-alone.
 * twin converges  -> logged rows of t == twin's result columns bit for bit, powerflow_failed[t] False
 * twin diverges   -> t is flagged failed, net.converged False after it; with
                      continue_on_divergence=False the loop leaves with PipeflowNotConverged exactly
                      there, with True it carries on and later steps are judged strictly again
 * step hit by an injected solver fault: may be flagged failed or equal the twin - never anything else
Liveness: number of calculations per step bounded.
"""
import copy
import io
import random

import numpy as np
import pandas as pd

import pandapipes as pp
from pandapipes.pf.pipeflow_setup import PipeflowNotConverged
from pandapipes.timeseries import run_timeseries
from pandapipes.control.run_control import run_control
from pandapower.control import ConstControl
from pandapower.auxiliary import NetCalculationNotConverged, ControllerNotConverged
from pandapower.control.basic_controller import Controller
from pandapower.timeseries import DFData, OutputWriter

from . import netgen, netmodel, seams, snap
from .core import RunResult

ENGINE = "e3"
SHRINK_LISTS = [("runs", 0, "time_steps"), ("runs",), ("controllers",), ("faults",), ("program", "ops")]
REAL = ["pandapipes.timeseries.run_timeseries / control.run_control (real)",
        "pandapower control loop, ConstControl, DFData, OutputWriter (real, not under test)",
        "pandapipes.pipeflow and everything below it (real)",
        "scipy.sparse.linalg.spsolve (behind the fault-injecting SimSolver seam)"]
STUB = ["disk (no output path: OutputWriter keeps results in memory; SimFS for restarts)",
        "wall clock (OutputWriter.perf_counter replaced by the virtual clock)"]

SIMCLOCK = {"t": None, "calc": 0, "calcs_in_step": {}}


class SimData(DFData):
    """Profile device: a DFData that also advances the simulator's virtual clock."""

    def get_time_step_value(self, time_step, profile_name, scale_factor=1.0):
        SIMCLOCK["t"] = time_step
        return super().get_time_step_value(time_step, profile_name, scale_factor)


class Observer(Controller):
    """A passive monitoring controller: records net.converged and a result digest per step."""

    def __init__(self, net, in_service=True, order=99, level=0, initial_run=False, **kwargs):
        super().__init__(net, in_service=in_service, order=order, level=level, initial_run=initial_run, **kwargs)
        self.seen = []

    def is_converged(self, net):
        return True

    def finalize_step(self, net, time):
        self.seen.append((int(time), bool(net.get("converged")), tuple(netmodel.any_number_in_results(net))))
        # options in force for the calculation of this step (C14: a calculation started by the loop resolves its
        # options like a direct call)
        if not hasattr(self, "opts_seen"):
            self.opts_seen = []
        self.opts_seen.append((int(time), {k: v for k, v in dict(net.get("_options", {})).items() if isinstance(v, (str, int, float, bool, type(None)))}))


# ==========================================================================================
def generate(seed, tier, prop):
    rng = random.Random(seed)
    thorough = tier == "thorough"
    fam = rng.choice(["gas", "gas", "water", "heat"])
    program, meta = netgen.gen_program(rng, family=fam, max_junctions=rng.choice([3, 5, 8]),
                                       sorted_labels=True)
    T = rng.randint(3, 8)
    fault_free = rng.random() < 0.3
    if meta["thermal"] and rng.random() < 0.12:
        return _generate_heat_only(rng, seed, tier, prop, program, meta, T, fault_free)
    # controllers -------------------------------------------------------------------------
    loads = [l for l in meta["loads"] if l[2].endswith("mdot_kg_per_s") or l[2] == "qext_w"]
    ctrls, profiles = [], {}
    nctrl = rng.randint(1, 3)
    used = set()
    for ci in range(nctrl):
        cands = [l for l in loads if (l[0], l[2]) not in used]
        if not cands:
            break
        (t, i, c, v) = rng.choice(cands)
        same = [l for l in loads if l[0] == t and l[2] == c]
        if len(same) > 1 and rng.random() < 0.4:
            idxs = [l[1] for l in same]
            used.add((t, c))
            names = ["p%d_%d" % (ci, k) for k in range(len(idxs))]
            base = [l[3] for l in same]
            ctrls.append({"element": t, "variable": c, "element_index": idxs, "profile": names,
                          "scale_factor": rng.choice([1.0, 1.0, 0.5, 2.0])})
        else:
            used.add((t, c))
            names = ["p%d" % ci]
            base = [v]
            single = rng.random() < 0.5
            ctrls.append({"element": t, "variable": c, "element_index": i if single else [i],
                          "profile": names[0] if single else names,
                          "scale_factor": rng.choice([1.0, 1.0, 0.5, 2.0])})
        for nm, b in zip(names, base):
            profiles[nm] = [round(b * rng.uniform(0.4, 1.6), 8) for _ in range(T)]
        ctrls[-1].update(order=rng.choice([-1, 0, 1]), level=rng.choice([-1, 0, 0, 1]),
                         initial_run=rng.random() < 0.3)
    if rng.random() < 0.3 and meta["feeders"] and meta["feeders"][0][0] == "ext_grid":
        eg = meta["feeders"][0][1]
        p0 = [o for o in program["ops"] if o["fn"] == "create_ext_grid"][0]["kw"]["p_bar"]
        profiles["peg"] = [round(p0 * rng.uniform(0.9, 1.1), 6) for _ in range(T)]
        ctrls.append({"element": "ext_grid", "variable": "p_bar", "element_index": [eg], "profile": ["peg"],
                      "scale_factor": 1.0, "order": 0, "level": 0, "initial_run": False})
    # supply switched by a profile: a step without any feeder fails before the solver is reached -------
    if not fault_free and meta["feeders"] and rng.random() < 0.25:
        ft = meta["feeders"][0][0]
        fidx = [i for (t_, i) in meta["feeders"] if t_ == ft]
        names = ["sw%d" % k for k in range(len(fidx))]
        off = set(rng.sample(range(T), rng.randint(1, 2)))
        for k, nm in enumerate(names):
            # (with two feeders the second one sometimes stays on: partially supplied instead of dead)
            profiles[nm] = [not (t_ in off and (k == 0 or rng.random() < 0.7)) for t_ in range(T)]
        ctrls.append({"element": ft, "variable": "in_service", "element_index": fidx, "profile": names,
                      "scale_factor": 1.0, "order": rng.choice([-1, 0, 1]), "level": rng.choice([-1, 0, 0, 1]),
                      "initial_run": False})
    # topology switched by a profile (valve opened / pipe or consumer in service): the set of active elements and
    # with it the structure of the system matrix changes from step to step
    if meta["toggles"] and rng.random() < 0.3:
        (tt, ti, tc) = rng.choice(meta["toggles"])
        cur = True
        for o in program["ops"]:
            if netmodel.TABLE_OF.get(o["fn"]) == tt and o["kw"].get("index") == ti:
                cur = bool(o["kw"].get(tc, True))
        profiles["tg"] = [cur if rng.random() < 0.5 else (not cur) for _ in range(T)]
        ctrls.append({"element": tt, "variable": tc, "element_index": [ti], "profile": ["tg"], "scale_factor": 1.0,
                      "order": rng.choice([-1, 0, 1]), "level": rng.choice([-1, 0]), "initial_run": False})
    # infeasible steps -------------------------------------------------------------------------
    bad_steps = []
    if not fault_free and ctrls and rng.random() < 0.6:
        for _ in range(rng.randint(1, 2)):
            t_bad = rng.randrange(T)
            c = rng.choice(ctrls)
            nm = c["profile"] if isinstance(c["profile"], str) else rng.choice(c["profile"])
            if c["variable"].endswith("mdot_kg_per_s") and c["element"] in ("sink", "mass_storage"):
                profiles[nm][t_bad] = round(abs(profiles[nm][t_bad]) * rng.choice([1e3, 1e4]) + 1.0, 6)
                bad_steps.append(t_bad)
    # runs -------------------------------------------------------------------------------------
    modes = ["hydraulics"] + (["sequential", "bidirectional"] if meta["thermal"] else [])
    runs = []
    for ri in range(rng.choice([1, 1, 2])):
        steps = list(range(T))
        form = rng.choice(["list", "list", "shuffled", "subset", "range"])
        if form == "shuffled":
            rng.shuffle(steps)
        elif form == "subset":
            steps = sorted(rng.sample(steps, rng.randint(1, T)))
            if rng.random() < 0.5:
                rng.shuffle(steps)
        kw = {"mode": rng.choice(modes), "iter": rng.choice([30, 60]), "use_numba": rng.random() < 0.5}
        if rng.random() < 0.3:
            kw["friction_model"] = rng.choice(["nikuradse", "colebrook", "swamee-jain"])
        if rng.random() < 0.2:
            kw["nonlinear_method"] = "automatic"
        if not fault_free and rng.random() < 0.1:
            kw["iter"] = rng.choice([1, 2, 3])
        if rng.random() < 0.2:
            kw["only_update_hydraulic_matrix"] = True   # (without reuse: every step still starts from scratch)
        runs.append({"time_steps": steps, "form": form, "cod": rng.random() < 0.6, "kw": kw,
                     "max_iter": rng.choice([30, 30, 5])})
    faults = []
    if not fault_free and rng.random() < 0.4:
        for _ in range(rng.randint(1, 2)):
            faults.append({"run": rng.randrange(len(runs)), "calc": rng.randrange(0, 3 * T), "stage": rng.choice(["hyd", "hyd", "heat"]),
                           "call": rng.choice([0, 1, 2]), "kind": rng.choice(["nan", "partial-nan", "inf"]),
                           "pos": rng.randrange(64)})
    logs = [["res_junction", "p_bar"]]
    pool = [["res_pipe", "mdot_from_kg_per_s"], ["res_ext_grid", "mdot_kg_per_s"], ["res_sink", "mdot_kg_per_s"],
            ["res_pipe", "v_mean_m_per_s"], ["res_junction", "t_k"], ["res_pipe", "t_to_k"],
            ["res_heat_consumer", "qext_w"], ["res_circ_pump_pressure", "mdot_from_kg_per_s"]]
    logs += [x for x in pool if rng.random() < 0.5]
    restart = None
    if prop == "C15" or rng.random() < 0.15:
        restart = rng.choice(["json_str", "json_file", "json_enc", "pickle_fobj"]) if len(runs) > 1 else None
    # options stored with the net before the loop is started
    user_opts = None
    if rng.random() < 0.35 or prop == "C14":
        pool_u = [{"friction_model": rng.choice(["colebrook", "swamee-jain"])}, {"ambient_temperature": 283.15}, {"tol_p": 1e-6, "tol_m": 1e-6},
                  {"iter": 45}, {"max_iter_hyd": 45, "my_unknown_option": 3}]
        if meta["thermal"]:
            pool_u += [{"mode": "all"}, {"mode": "all"}, {"mode": "sequential"}]
        user_opts = rng.choice(pool_u)
    return {"engine": ENGINE, "prop": prop, "seed": seed, "tier": tier, "program": program, "meta": meta,
            "controllers": ctrls, "profiles": profiles, "n_steps": T, "runs": runs, "faults": faults, "user_opts": user_opts,
            "logs": logs, "observer": rng.random() < 0.5 or prop == "C14", "restart": restart,
            "knobs": {"fault_free": fault_free, "bad_steps": bad_steps}, "ops": []}


def _generate_heat_only(rng, seed, tier, prop, program, meta, T, fault_free):
    """Thermal-only time series: the hydraulic solution is calculated once and handed to every step (mode="heat",
    sol_vec=...); the profiles only touch thermal quantities."""
    cands = []
    for o in program["ops"]:
        t = netmodel.TABLE_OF.get(o["fn"])
        kw = o["kw"]
        if t == "ext_grid" and "t_k" in kw:
            cands.append((t, kw["index"], "t_k", kw["t_k"]))
        elif t in ("circ_pump_pressure", "circ_pump_mass") and "t_flow_k" in kw and kw.get("in_service", True):
            cands.append((t, kw["index"], "t_flow_k", kw["t_flow_k"]))
        elif t == "heat_exchanger":
            cands.append((t, kw["index"], "qext_w", kw["qext_w"]))
        elif t == "heat_consumer" and "qext_w" in kw and "controlled_mdot_kg_per_s" in kw:
            cands.append((t, kw["index"], "qext_w", kw["qext_w"]))
        elif t == "pipe" and "text_k" in kw:
            cands.append((t, kw["index"], "text_k", kw["text_k"]))
    ctrls, profiles = [], {}
    for ci, (t, i, c, v) in enumerate(rng.sample(cands, min(len(cands), rng.randint(1, 3)))):
        nm = "h%d" % ci
        base = float(v) if v else 1000.0
        profiles[nm] = [round(base * rng.uniform(0.97, 1.03), 6) if c in ("t_k", "t_flow_k", "text_k") else round(base * rng.uniform(0.5, 1.5), 4)
                        for _ in range(T)]
        ctrls.append({"element": t, "variable": c, "element_index": [i], "profile": [nm], "scale_factor": 1.0,
                      "order": rng.choice([-1, 0, 1]), "level": rng.choice([-1, 0]), "initial_run": rng.random() < 0.3})
    bad_steps = []
    if not fault_free and ctrls and rng.random() < 0.6:
        # a step whose temperature set point is missing: the thermal calculation of that step fails
        tc = [c for c in ctrls if c["variable"] in ("t_k", "t_flow_k")]
        if tc:
            t_bad = rng.randrange(T)
            profiles[tc[0]["profile"][0]][t_bad] = float("nan")
            bad_steps.append(t_bad)
    steps = list(range(T))
    if rng.random() < 0.4:
        steps = sorted(rng.sample(steps, rng.randint(2, T)))
        if rng.random() < 0.5:
            rng.shuffle(steps)
    kw = {"mode": "heat", "iter": rng.choice([30, 60]), "use_numba": rng.random() < 0.5}
    runs = [{"time_steps": steps, "form": "list", "cod": rng.random() < 0.7, "kw": kw, "max_iter": 30, "heat_only": True}]
    logs = [["res_junction", "t_k"], ["res_pipe", "t_to_k"], ["res_pipe", "t_from_k"]]
    if any(o["fn"] == "create_heat_consumer" for o in program["ops"]):
        logs.append(["res_heat_consumer", "t_to_k"])
    return {"engine": ENGINE, "prop": prop, "seed": seed, "tier": tier, "program": program, "meta": meta,
            "controllers": ctrls, "profiles": profiles, "n_steps": T, "runs": runs, "faults": [], "user_opts": None,
            "logs": logs, "observer": rng.random() < 0.5, "restart": None,
            "knobs": {"fault_free": fault_free, "bad_steps": bad_steps, "heat_only": True}, "ops": []}


# ==========================================================================================
def _build_world(trace, with_observer):
    net = netmodel.build(trace["program"])
    if trace.get("user_opts"):
        pp.set_user_pf_options(net, **trace["user_opts"])
    prof = trace["profiles"]
    T = trace["n_steps"]
    cols = {k: list(v) + [v[-1]] * (T - len(v)) if len(v) < T else list(v)[:T] for k, v in sorted(prof.items())}
    # switching profiles live in a data source of their own: a row of a frame that mixes bool and float columns
    # comes out of pandas as an object array, which then changes the dtype of the boolean table column
    isb = {k: all(isinstance(x, bool) for x in v) for k, v in cols.items()}
    df = pd.DataFrame({k: v for k, v in cols.items() if not isb[k]}, index=list(range(T)))
    ds = SimData(df)
    dfb = pd.DataFrame({k: v for k, v in cols.items() if isb[k]}, index=list(range(T)), dtype=bool)
    dsb = SimData(dfb) if len(dfb.columns) else None
    for c in trace["controllers"]:
        el = c["element"]
        if el not in net or not len(net[el]):
            continue
        idx = c["element_index"]
        ok = all(i in net[el].index for i in (idx if isinstance(idx, list) else [idx]))
        names = c["profile"] if isinstance(c["profile"], list) else [c["profile"]]
        src = dsb if (dsb is not None and all(n in dfb.columns for n in names)) else ds
        if not ok or any(n not in src.df.columns for n in names):
            continue
        ConstControl(net, element=el, variable=c["variable"], element_index=idx, profile_name=c["profile"],
                     data_source=src, scale_factor=c["scale_factor"], order=c["order"], level=c["level"],
                     initial_run=c["initial_run"])
    obs = None
    if with_observer:
        # (alone in the net the passive observer would switch the loop's initial calculation off and nothing would
        # ever be calculated: it only stays without initial run next to controllers that act)
        obs = Observer(net, initial_run=("controller" not in net or len(net.controller) == 0))
    return net, ds, obs


def _step_values(trace, t):
    """[(element, index, variable, value)] the profiles prescribe at step t (the model's view)."""
    out = []
    for c in trace["controllers"]:
        idx = c["element_index"] if isinstance(c["element_index"], list) else [c["element_index"]]
        names = c["profile"] if isinstance(c["profile"], list) else [c["profile"]]
        for i, nm in zip(idx, names):
            if nm in trace["profiles"] and t < len(trace["profiles"][nm]):
                v = trace["profiles"][nm][t]
                out.append((c["element"], i, c["variable"], v if isinstance(v, bool) else v * c["scale_factor"]))
    return out


def _twin(trace, t, kw, solver):
    twin = netmodel.build(trace["program"])
    if trace.get("user_opts"):
        pp.set_user_pf_options(twin, **trace["user_opts"])
    if kw.get("mode") == "heat":
        # stand-alone counterpart of a thermal-only step: hydraulic solution of the net as built, then this step's
        # values, then the thermal calculation from that solution
        from .e1 import _sol_vec
        hk = {k_: v_ for k_, v_ in kw.items() if k_ != "mode"}
        solver.begin_calc([])
        try:
            pp.pipeflow(twin, mode="hydraulics", **hk)
        except PipeflowNotConverged:
            return twin, "nc"
        except Exception as e:
            return twin, "exc:" + type(e).__name__
        sol = _sol_vec(twin)
        for (el, i, var, val) in _step_values(trace, t):
            if el in twin and i in twin[el].index:
                twin[el].at[i, var] = val
        try:
            pp.pipeflow(twin, sol_vec=sol, **kw)
            return twin, "ok"
        except PipeflowNotConverged:
            return twin, "nc"
        except Exception as e:
            return twin, "exc:" + type(e).__name__
    for (el, i, var, val) in _step_values(trace, t):
        if el in twin and i in twin[el].index:
            twin[el].at[i, var] = val
    solver.begin_calc([])
    try:
        pp.pipeflow(twin, **kw)
        return twin, "ok"
    except PipeflowNotConverged:
        return twin, "nc"
    except Exception as e:
        return twin, "exc:" + type(e).__name__


class _CalcCounter:
    """Seam: pipeflow's own reference to init_options (called exactly once per calculation) is
    wrapped to number the calculations of a run and arm the solver fault plan for each."""

    def __init__(self, solver, faults):
        self.solver, self.faults = solver, faults
        self.n = 0
        self.per_step = {}
        self.fault_steps = set()
        self.fired_steps = set()
        self._cur_step = None
        self.orig = None

    def install(self):
        self.orig = seams.PF_MOD.init_options
        orig = self.orig

        def wrapped(net, **kwargs):
            self.note_fired()
            k = self.n
            self.n += 1
            t = SIMCLOCK["t"]
            self._cur_step = t
            self.per_step[t] = self.per_step.get(t, 0) + 1
            plan = [f for f in self.faults if f["calc"] == k]
            if plan:
                self.fault_steps.add(t)
            fired_before = len(self.solver.fired)
            self.solver.begin_calc(plan)
            return orig(net, **kwargs)
        seams.PF_MOD.init_options = wrapped

    def note_fired(self):
        if self.solver.fired:
            self.fired_steps.add(self._cur_step)

    def uninstall(self):
        self.note_fired()
        if self.orig is not None:
            seams.PF_MOD.init_options = self.orig


def _expand_steps(run):
    steps = run["time_steps"]
    if run["form"] == "range" and steps == list(range(len(steps))) and steps:
        return range(steps[0], steps[-1] + 1), list(steps)
    if run["form"] == "tuple" and steps and steps == list(range(steps[0], steps[-1] + 1)):
        return (steps[0], steps[-1] + 1), list(steps)
    return list(steps), list(steps)


def execute(trace):
    res = RunResult()
    solver = seams.SimSolver()
    solver.install()
    fs = seams.SimFS()
    fs.install()
    seams.restore_defaults()
    import pandapower.timeseries.output_writer as owm
    real_pc = owm.perf_counter
    vclock = {"n": 0}

    def fake_pc():
        vclock["n"] += 1
        return float(vclock["n"])
    owm.perf_counter = fake_pc
    try:
        _execute(trace, res, solver, fs)
    finally:
        owm.perf_counter = real_pc
        solver.uninstall()
        fs.uninstall()
        if seams.defaults_diff():
            res.violate("C14", "C14/defaults-mutated:%s" % ",".join(seams.defaults_diff()), "")
        seams.restore_defaults()
    return res


def _execute(trace, res, solver, fs):
    prop = trace["prop"]
    net, ds, obs = _build_world(trace, trace.get("observer"))
    res.sig_parts.append(trace["meta"]["family"])
    nctrl = len(net.controller) if "controller" in net else 0
    for ri, run in enumerate(trace["runs"]):
        arg_steps, steps = _expand_steps(run)
        if not steps:
            continue
        if ri > 0 and trace.get("restart"):
            net = _restart(res, net, trace["restart"], fs, ri)
            obs = None
            for o in net.controller.object.values:
                if isinstance(o, Observer):
                    obs = o
        ow = OutputWriter(net, time_steps=steps, output_path=None, log_variables=[])
        for tbl, var in trace["logs"]:
            if tbl in net or tbl[4:] in net:
                ow.log_variable(tbl, var)
        faults = [f for f in trace["faults"] if f.get("run", 0) == ri]
        cc = _CalcCounter(solver, faults)
        cc.install()
        SIMCLOCK["t"] = None
        if obs is not None:
            obs.seen = []
        kw = copy.deepcopy(run["kw"])
        raised = None
        try:
            if run.get("heat_only"):
                from .e1 import _sol_vec
                hk = {k_: v_ for k_, v_ in kw.items() if k_ != "mode"}
                pp.pipeflow(net, mode="hydraulics", **hk)
                run_timeseries(net, time_steps=arg_steps, continue_on_divergence=run["cod"], verbose=False,
                               max_iter=run.get("max_iter", 30), sol_vec=_sol_vec(net), **kw)
                res.count("probe:heat-only-time-series")
            else:
                run_timeseries(net, time_steps=arg_steps, continue_on_divergence=run["cod"], verbose=False,
                               max_iter=run.get("max_iter", 30), **kw)
        except Exception as e:
            raised = e
        finally:
            cc.uninstall()
        res.calcs += cc.n
        res.count("ts-run")
        res.nontrivial = True
        if raised is not None:
            try:
                ow._np_to_pd()   # the loop was left early: read what was logged so far
            except Exception:
                pass
        out = ow.output
        failed_flags = out["Parameters"]["powerflow_failed"] if "Parameters" in out and "powerflow_failed" in out["Parameters"] else None
        # ---- walk the steps in execution order against the scheduler model -----------------
        expect_abort_at = None
        foreign = False
        executed = []
        for pos, t in enumerate(steps):
            twin, tout = _twin(trace, t, kw, solver)
            faulted = t in cc.fired_steps
            if faulted:
                res.count("fault:solve-fired-in-step")
            later_calcs = sum(cc.per_step.get(s_, 0) for s_ in steps[pos + 1:] if s_ != t)
            aborted_here = raised is not None and later_calcs == 0 and cc.per_step.get(t, 0) > 0 and \
                all(cc.per_step.get(s_, 0) == 0 for s_ in steps[pos + 1:])
            executed.append(t)
            res.sim_steps += 1
            flagged = bool(failed_flags.loc[t]) if failed_flags is not None and t in failed_flags.index and not pd.isnull(failed_flags.loc[t]) else False
            res.log.add("step", ri, t, tout, "flag", flagged, "fault", faulted, "calcs", cc.per_step.get(t, 0))
            res.sig_parts.append("%s%s%s" % (tout[:2], "F" if flagged else "-", "x" if faulted else ""))
            # liveness: bounded number of calculations per step
            bound = 2 + 2 * (nctrl + 1) * (run.get("max_iter", 30) + 1)
            if cc.per_step.get(t, 0) > bound:
                res.violate("C13", "C13/too-many-calculations-in-step", "%d > %d" % (cc.per_step.get(t, 0), bound), pos)
            if aborted_here and faulted and not isinstance(raised, (PipeflowNotConverged, NetCalculationNotConverged, ControllerNotConverged)):
                # the injected solver fault drove pipeflow into one of its foreign-exception defects
                # (judged by C05); the loop left with it - nothing more to judge in this run
                res.count("probe:fault-caused-foreign-exception")
                foreign = True
                break
            if tout.startswith("exc"):
                res.count("probe:twin-foreign-exception")
                # a foreign exception of a stand-alone pipeflow is C05's business; the loop cannot be judged
                foreign = True
                if raised is not None:
                    break
                continue
            if tout == "ok":
                if faulted and not run["cod"] and aborted_here and isinstance(raised, PipeflowNotConverged):
                    # an injected solver fault made this step fail; without continue_on_divergence the
                    # loop must leave right here
                    res.count("probe:faulted-step-aborted")
                    expect_abort_at = pos
                    break
                if flagged and not faulted:
                    res.violate("C13", "C13/feasible-step-reported-failed@cod=%s" % run["cod"], "step %d" % t, pos)
                if not flagged and not (aborted_here and raised is not None):
                    # (a step hit by a solver fault that recovers - the thermal solve skips a NaN update - converges along
                    # another Newton path: the same solution within the tolerances, not bit for bit)
                    diffs = _compare_logged(out, twin, t, trace["logs"], exact=not faulted)
                    for d in diffs:
                        res.violate("C13", "C13/step-not-equal-twin:%s%s" % (d, ("@after-fault:%s" % kw.get("mode", "hydraulics")) if faulted else ""), "step %d" % t, pos)
                    res.oracle_checks += 1
                    res.count("probe:step-equals-twin-checked")
                if flagged and faulted:
                    res.count("probe:faulted-step-failed")
                continue
            # twin diverged -------------------------------------------------------------------
            res.count("probe:diverged-step")
            if not run["cod"]:
                # reported by leaving the loop with the convergence error (checked below)
                expect_abort_at = pos
                break
            if not flagged:
                res.violate("C13", "C13/diverged-step-not-reported@cod=True", "step %d" % t, pos)
            if pos + 1 < len(steps):
                res.count("probe:step-after-diverged")
        # ---- exceptions / termination -------------------------------------------------------
        if expect_abort_at is not None:
            if raised is None:
                res.violate("C13", "C13/loop-continued-after-divergence@cod=False", "", expect_abort_at)
            elif not isinstance(raised, PipeflowNotConverged):
                res.violate("C13", "C13/loop-aborted:%s@cod=False" % _exc_sig(raised), repr(raised)[:200], expect_abort_at)
            else:
                res.count("probe:aborted-at-diverged-step")
            if obs is not None and obs.seen:
                last_t = obs.seen[-1][0]
                if steps.index(last_t) > expect_abort_at:
                    res.violate("C13", "C13/steps-executed-after-abort", "", expect_abort_at)
        elif not foreign:
            if raised is not None:
                res.violate("C13", "C13/loop-aborted:%s@cod=%s" % (_exc_sig(raised), run["cod"]), repr(raised)[:200], len(steps))
        # ---- observer: net.converged per step -------------------------------------------------
        if obs is not None:
            for (t, conv, numbered) in obs.seen:
                flagged = bool(failed_flags.loc[t]) if failed_flags is not None and t in failed_flags.index and not pd.isnull(failed_flags.loc[t]) else False
                if flagged and conv:
                    res.violate("C13", "C13/failed-step-left-net-converged", "step %d" % t, steps.index(t))
                if flagged and numbered:
                    res.violate("C13", "C13/failed-step-left-results:%s" % numbered[0], "step %d" % t, steps.index(t))
            res.count("probe:observer-steps", len(obs.seen))
            # ---- C14: options in force in the loop = resolution of (stored user options, options given to the loop)
            from . import e1 as _e1
            model = _e1.model_resolve(dict(trace.get("user_opts") or {}), kw, trace["program"]["fluid"])
            for (t, got) in getattr(obs, "opts_seen", []):
                for k_ in sorted(_e1.OPTION_DEFAULTS):
                    if k_ == "alpha" and model.get("nonlinear_method") == "automatic":
                        continue
                    if k_ in got and k_ in model and got[k_] != model[k_]:
                        layers = "%s%s" % ("u" if k_ in (trace.get("user_opts") or {}) else "-", "c" if k_ in kw else "-")
                        res.violate("C14", "C14/resolution:%s:%s@timeseries" % (k_, layers), "step %d: in force %r, model %r" % (t, got[k_], model[k_]), 0)
                res.oracle_checks += 1
            obs.opts_seen = []
        res.sig_parts.append("|cod%d|%s|%s" % (run["cod"], run["form"], "R" if raised else "-"))
        for f in solver.fired:
            pass
    res.log.add("end")


def _compare_logged(out, twin, t, logs, exact=True):
    diffs = []
    for tbl, var in logs:
        key = "%s.%s" % (tbl, var)
        if key not in out:
            continue
        if tbl not in twin or var not in twin[tbl]:
            continue
        row = out[key]
        if t not in row.index:
            diffs.append("%s:missing-row" % key)
            continue
        got = row.loc[t].values.astype(np.float64)
        want = twin[tbl][var].values.astype(np.float64)
        if len(got) != len(want):
            diffs.append(key)
        elif exact and not np.array_equal(got, want, equal_nan=True):
            diffs.append(key)
        elif not exact and not np.allclose(got, want, rtol=1e-3, atol=1e-4, equal_nan=True):
            diffs.append(key)
    return diffs


def _restart(res, net, path, fs, n):
    from . import e1
    loaded, err = e1._save_load(net, path, fs, None, 0, 500 + n)
    if err is not None or loaded is None:
        res.violate("C15", "C15/unexpected-oserror@%s" % path, repr(err))
        return net
    d = e1.compare_loaded(net, loaded, path)
    for x in d:
        res.violate("C15", "C15/lost:%s@%s" % (x, path.split("_")[0]), x)
    res.count("restart:%s+controllers" % path)
    res.oracle_checks += 1
    return loaded


def _exc_sig(exc):
    """Exception class, plus a message slug for anything that is not a convergence error."""
    import re
    name = type(exc).__name__
    if name in ("PipeflowNotConverged", "LoadflowNotConverged", "NetCalculationNotConverged", "ControllerNotConverged"):
        return name
    return "%s:%s" % (name, re.sub(r"[^a-z]+", "-", str(exc).lower())[:40].strip("-"))
