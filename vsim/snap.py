"""Deep, hash-seed independent canonical snapshots of the durable part of a net.

snapshot(net) -> {key: canonical string or {column: digest}}; diff(a, b) -> list of
'<entry>' / '<table>.<column>' strings naming what differs.
"""
import math

import numpy as np
import pandas as pd

from .core import digest_array

VOLATILE_PREFIX = "_"


def canon_deep(o, depth=0):
    if depth > 12:
        return "<deep>"
    if o is None:
        return "None"
    if isinstance(o, (bool, np.bool_)):
        return "T" if o else "F"
    if isinstance(o, (int, np.integer)):
        return "i%d" % int(o)
    if isinstance(o, (float, np.floating)):
        return "nan" if math.isnan(o) else "f" + float(o).hex()
    if isinstance(o, str):
        return "s" + repr(str.__str__(o) if type(o) is str else str(getattr(o, "value", o)))   # a StrEnum member equals its string
    if isinstance(o, bytes):
        return "b" + o.hex()
    if isinstance(o, np.ndarray):
        return "A(%s,%s,%s)" % (o.dtype, o.shape, digest_array(o))
    if isinstance(o, pd.DataFrame):
        return "DF{" + ",".join("%s=%s" % (k, v) for k, v in sorted(df_columns_digest(o).items())) + "}"
    if isinstance(o, pd.Series):
        return "S(%s,%s,%s)" % (o.dtype, digest_array(o.index.values), digest_array(o.values))
    if isinstance(o, pd.Index):
        return "I(%s,%s)" % (o.dtype, digest_array(o.values))
    if isinstance(o, dict):
        items = sorted(((canon_deep(k, depth + 1), canon_deep(v, depth + 1)) for k, v in o.items()))
        return "{" + ",".join("%s:%s" % kv for kv in items) + "}"
    if isinstance(o, (list, tuple)):
        return ("[" if isinstance(o, list) else "(") + ",".join(canon_deep(x, depth + 1) for x in o) + "]"
    if isinstance(o, (set, frozenset)):
        return "set{" + ",".join(sorted(canon_deep(x, depth + 1) for x in o)) + "}"
    if isinstance(o, type):
        return "class:" + o.__module__ + "." + o.__qualname__
    tname = type(o).__module__ + "." + type(o).__qualname__
    if tname.startswith("scipy.interpolate") and hasattr(o, "x") and hasattr(o, "y"):
        fv = getattr(o, "fill_value", None)
        if fv is not None and not isinstance(fv, str):
            # interp1d keeps what it was given: nan, array(nan) and [nan] mean the same fill value
            try:
                fv = np.asarray(fv, dtype=float).ravel().tolist()
            except (TypeError, ValueError):
                pass
        return "interp1d(%s,%s,%s,%s)" % (canon_deep(np.asarray(o.x)), canon_deep(np.asarray(o.y)),
                                          canon_deep(fv, depth + 1), canon_deep(getattr(o, "bounds_error", None)))
    if isinstance(o, np.poly1d):
        return "poly1d(%s)" % canon_deep(np.asarray(o.coeffs))
    if hasattr(o, "name") and hasattr(o, "value") and type(o).__mro__[1].__name__ in ("Enum", "IntEnum", "StrEnum", "Flag"):
        return "enum:%s.%s" % (type(o).__name__, o.name)
    try:
        import enum
        if isinstance(o, enum.Enum):
            return "enum:%s.%s" % (type(o).__name__, o.name)
    except Exception:
        pass
    if callable(o) and not hasattr(o, "__dict__"):
        return "callable:" + getattr(o, "__qualname__", tname)
    if hasattr(o, "__dict__"):
        d = {k: v for k, v in vars(o).items()}
        return "obj:%s%s" % (tname, canon_deep(d, depth + 1))
    if callable(o):
        return "callable:" + getattr(o, "__qualname__", tname)
    return "o<%s>%r" % (tname, o)


def df_columns_digest(df):
    out = {"@index": "%s:%s" % (df.index.dtype, digest_array(df.index.values)),
           "@columns": "|".join(map(str, df.columns))}
    for c in df.columns:
        col = df[c]
        out[str(c)] = "%s:%s" % (col.dtype, digest_array(col.values))
    return out


def snapshot(net, include_results=False, skip=("converged",)):
    snap = {"user_pf_options": canon_deep({})}
    for k in sorted(net.keys(), key=str):
        if not isinstance(k, str):
            snap[repr(k)] = canon_deep(net[k])
            continue
        if k.startswith(VOLATILE_PREFIX) or k in skip:
            continue
        if k.startswith("res_") and not include_results:
            continue
        v = net[k]
        if isinstance(v, pd.DataFrame):
            snap[k] = df_columns_digest(v)
        elif k == "user_pf_options":
            snap[k] = canon_deep({kk: vv for kk, vv in v.items() if kk != "hyd_flag"})
        elif k == "sector":
            snap[k] = canon_deep(str(v))  # StrEnum member and its plain string compare equal
        elif k == "component_list":
            snap[k] = canon_deep([c.__name__ if isinstance(c, type) else type(c).__name__ for c in v])
        else:
            snap[k] = canon_deep(v)
    return snap


def diff(a, b):
    out = []
    for k in sorted(set(a) | set(b)):
        if k not in a:
            out.append("%s:added" % k)
        elif k not in b:
            out.append("%s:removed" % k)
        elif isinstance(a[k], dict) and isinstance(b[k], dict):
            for c in sorted(set(a[k]) | set(b[k])):
                if a[k].get(c) != b[k].get(c):
                    # distinguish dtype from value change
                    x, y = a[k].get(c), b[k].get(c)
                    kind = ""
                    if x is not None and y is not None and ":" in x and ":" in y:
                        if x.split(":")[0] != y.split(":")[0]:
                            kind = ":dtype"
                    out.append("%s.%s%s" % (k, c, kind))
        elif a[k] != b[k]:
            out.append(k)
    return out
