"""Compile numba's lazily-jitted kernels once in the parent (before forking workers)."""
import warnings

_done = False


def warm():
    global _done
    if _done:
        return
    _done = True
    warnings.simplefilter("ignore")
    import pandapipes as pp
    from . import seams
    seams.quiet_logging()
    for fluid, mode in (("lgas", "hydraulics"), ("water", "sequential"), ("water", "bidirectional")):
        net = pp.create_empty_network(fluid=fluid)
        j = pp.create_junctions(net, 3, 5.0, 300.0)
        pp.create_ext_grid(net, j[0], 5.0, 330.0, type="pt")
        pp.create_pipe_from_parameters(net, j[0], j[1], 0.5, 100.0, sections=2, u_w_per_m2k=1.0, text_k=280.0)
        pp.create_pipe_from_parameters(net, j[1], j[2], 0.5, 100.0, u_w_per_m2k=1.0, text_k=280.0)
        pp.create_sink(net, j[2], 0.01 if fluid == "lgas" else 0.5)
        for numba in (True, False):
            pp.pipeflow(net, mode=mode, use_numba=numba, iter=40)
