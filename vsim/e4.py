"""Engine E4 - construction and restructuring histories.

 C16  histories of create_* calls (single and bulk, every create function) on a growing net; each call
      is drawn valid or - with probability 1/4 - carries ONE injected invalid argument at a random
      position (unknown junction / pipe / std type, duplicate index, wrong-length array, malformed
      geodata, unknown et, NaN in a bool column ...).  After every call: success => exactly the
      requested rows, passed values stored, omitted optionals at their defaults, dtypes kept, index
      unique, references resolvable, everything else untouched;  exception => the whole net deep-equal
      to the snapshot taken before the call.  At the end: single == bulk, std-type pipe == pipe from
      that type's parameters, omitted optionals == documented defaults passed explicitly (tables and a
      calculation).
 C17  histories of reindex_* / create_continuous_* / drop_* / fuse_junctions / select_subnet on nets
      holding every component kind, executed under the run's PYTHONHASHSEED (set iteration order is the
      scheduler of that module): referential integrity after every op, untouched elements unchanged,
      relabelling leaves results unchanged up to the label map, a complete supplied region reproduces its
      results, final nets equal as sets of rows across two hash seeds (cross-checked by the parent via
      a hash-seed independent state digest in the run signature).
 C06  the same set of create operations issued under k random linear extensions of its dependency order,
      with / without explicit index, with rows permuted and labels pushed beyond 1e5; results joined on
      element identity must agree (1e-9 after tight solves).
"""
import copy
import inspect
import random

import numpy as np
import pandas as pd

import pandapipes as pp
import pandapipes.toolbox as tb
from pandapipes.pf.pipeflow_setup import PipeflowNotConverged

from . import netgen, netmodel, seams, snap
from .core import RunResult

ENGINE = "e4"
SHRINK_LISTS = [("ops",), ("program", "ops")]
REAL = ["pandapipes.create (every create_* function), pandapipes.toolbox (reindex/drop/fuse/select), pipeflow (real)"]
STUB = []
TIGHT = dict(tol_p=1e-8, tol_m=1e-8, tol_T=1e-7, tol_res=1e-5, iter=300)  # residual floor ~1e-7: accuracy comes from the step tolerances


def generate(seed, tier, prop):
    rng = random.Random(seed)
    if prop == "C16":
        return _gen_c16(rng, seed, tier)
    if prop == "C17":
        return _gen_c17(rng, seed, tier)
    return _gen_c06(rng, seed, tier)


def execute(trace):
    res = RunResult()
    seams.restore_defaults()
    solver = seams.SimSolver()
    solver.install()
    try:
        if trace["prop"] == "C16":
            _exec_c16(trace, res)
        elif trace["prop"] == "C17":
            _exec_c17(trace, res)
        else:
            _exec_c06(trace, res)
    finally:
        solver.uninstall()
        seams.restore_defaults()
    return res


# ==========================================================================================
# C16
# ==========================================================================================
PIPE_STD = netgen.PIPE_STD_TYPES
HEAT_PIPE_STD = ["ISOPLUS_DRE20_STD", "ISOPLUS_DRE25_1x", "ISOPLUS_DRE20_2x"]
FLUIDS = ["lgas", "hgas", "water", "methane"]


def _gen_c16(rng, seed, tier):
    fluid = rng.choice(FLUIDS)
    n = rng.randint(5, 14 if tier == "quick" else 25)
    st = {"junctions": [], "pipes": [], "next": {}, "rng": rng}
    ops = []
    # start with a few junctions so that references are possible
    for _ in range(rng.randint(2, 4)):
        ops.append(_mk_call(rng, st, "create_junction", fault=None))
    while len(ops) < n:
        fn = rng.choice(CREATE_FUNCS)
        fault = None
        if rng.random() < 0.25:
            fault = "pending"
        op = _mk_call(rng, st, fn, fault)
        if op is not None:
            ops.append(op)
    tail = {"bulk_vs_single": rng.choice(["sinks", "sources", "junctions", "pipes", "pipes_par", "valves", "ext_grids",
                                          "flow_controls", "press_controls", "heat_exchangers", "heat_consumers"]),
            "n": rng.randint(1, 4), "seed": rng.randrange(1 << 30),
            "std_type": rng.choice(PIPE_STD), "defaults_fn": rng.choice(sorted(DOCUMENTED_DEFAULTS))}
    # "on empty and populated nets of every sector": a restricted sector starts without the tables of the
    # other sectors' components, the create functions add them on demand
    sector = rng.choice(["all", "all", "all", "gas", "water", "heat", "None"])
    return {"engine": ENGINE, "prop": "C16", "seed": seed, "tier": tier, "fluid": fluid, "ops": ops, "tail": tail,
            "empty_start": True, "sector": sector}


CREATE_FUNCS = ["create_junction", "create_junction", "create_sink", "create_source", "create_mass_storage", "create_ext_grid",
                "create_pipe", "create_pipe_from_parameters", "create_valve", "create_pump", "create_pump_from_parameters",
                "create_compressor",
                "create_pressure_control", "create_flow_control", "create_heat_exchanger", "create_heat_consumer",
                "create_circ_pump_const_pressure", "create_circ_pump_const_mass_flow",
                "create_junctions", "create_sinks", "create_sources", "create_ext_grids", "create_pipes",
                "create_pipes_from_parameters", "create_valves", "create_valves", "create_pressure_controls", "create_flow_controls",
                "create_heat_exchangers", "create_heat_consumers"]


def _new_index(rng, st, table, n=None):
    cur = st["next"].get(table, rng.choice([0, 0, 3]))
    k = 1 if n is None else n
    out = []
    for _ in range(k):
        out.append(cur)
        cur += rng.choice([1, 1, 2, 5])
    st["next"][table] = cur
    return out[0] if n is None else out


def _mk_call(rng, st, fn, fault):
    """Build one concrete create call. The generator keeps its own record of which junction / pipe
    labels exist (assuming valid calls succeed), faults are concretised here as well."""
    J, P = st["junctions"], st["pipes"]
    table = netmodel.TABLE_OF[fn]
    bulk = fn.endswith("s") and fn not in ("create_pipe_from_parameters", "create_circ_pump_const_pressure", "create_compressor")
    bulk = fn in ("create_junctions", "create_sinks", "create_sources", "create_ext_grids", "create_pipes",
                  "create_pipes_from_parameters", "create_valves", "create_pressure_controls", "create_flow_controls",
                  "create_heat_exchangers", "create_heat_consumers")
    k = rng.randint(1, 3) if bulk else None
    explicit_index = rng.random() < 0.6
    kw = {}

    def jref():
        return rng.choice(J)

    def jrefs():
        return [rng.choice(J) for _ in range(k)]
    if table != "junction" and len(J) < 2:
        return None
    if fn == "create_junction":
        kw = {"pn_bar": round(rng.uniform(1, 16), 2), "tfluid_k": round(rng.uniform(280, 360), 1)}
        if rng.random() < 0.5:
            kw["height_m"] = round(rng.uniform(0, 30), 1)
        if rng.random() < 0.3:
            kw["name"] = "j%d" % rng.randrange(100)
        if rng.random() < 0.2:
            kw["in_service"] = rng.random() < 0.8
        if rng.random() < 0.3:
            kw["geodata"] = [round(rng.uniform(0, 10), 2), round(rng.uniform(0, 10), 2)]
        if rng.random() < 0.15:
            if rng.random() < 0.5:
                kw["my_column"] = rng.choice([1.5, 2.5])
            else:
                kw["my_tag"] = rng.choice(["tag", "x"])
    elif fn == "create_junctions":
        kw = {"nr_junctions": k, "pn_bar": round(rng.uniform(1, 16), 2), "tfluid_k": round(rng.uniform(280, 360), 1)}
        if rng.random() < 0.5:
            kw["height_m"] = [round(rng.uniform(0, 30), 1) for _ in range(k)]
        if rng.random() < 0.3:
            kw["geodata"] = [[round(rng.uniform(0, 10), 2), round(rng.uniform(0, 10), 2)] for _ in range(k)]
    elif fn in ("create_sink", "create_source"):
        kw = {"junction": jref(), "mdot_kg_per_s": round(rng.uniform(0.001, 1.0), 4)}
        if rng.random() < 0.4:
            kw["scaling"] = rng.choice([0.5, 2.0])
        if rng.random() < 0.2:
            kw["in_service"] = False
    elif fn in ("create_sinks", "create_sources"):
        kw = {"junctions": jrefs(), "mdot_kg_per_s": rng.choice([round(rng.uniform(0.001, 1.0), 4), [round(rng.uniform(0.001, 1.0), 4) for _ in range(k)]])}
        if rng.random() < 0.4:
            kw["scaling"] = rng.choice([0.5, [2.0] * k])
    elif fn == "create_mass_storage":
        kw = {"junction": jref(), "mdot_kg_per_s": round(rng.uniform(-0.5, 0.5), 4)}
        if rng.random() < 0.5:
            kw.update(init_m_stored_kg=rng.choice([0, 5.0]), min_m_stored_kg=0.0, max_m_stored_kg=rng.choice([10.0, 100.0]))
    elif fn == "create_ext_grid":
        kw = {"junction": jref()}
        form = rng.choice(["p", "pt", "t", "auto_p", "auto_pt"])
        if form in ("p", "auto_p"):
            kw["p_bar"] = round(rng.uniform(1, 16), 2)
        elif form in ("pt", "auto_pt"):
            kw.update(p_bar=round(rng.uniform(1, 16), 2), t_k=round(rng.uniform(280, 360), 1))
        else:
            kw["t_k"] = round(rng.uniform(280, 360), 1)
        if not form.startswith("auto"):
            kw["type"] = form
    elif fn == "create_ext_grids":
        kw = {"junctions": jrefs(), "p_bar": round(rng.uniform(1, 16), 2), "t_k": round(rng.uniform(280, 360), 1)}
        if rng.random() < 0.4:
            # pressure-only and temperature-only grids in one call (NaN = not given, type inferred per grid)
            nan = float("nan")
            forms = [rng.choice(["p", "t", "pt"]) for _ in range(k)]
            kw["p_bar"] = [round(rng.uniform(1, 16), 2) if "p" in f_ else nan for f_ in forms]
            kw["t_k"] = [round(rng.uniform(280, 360), 1) if "t" in f_ else nan for f_ in forms]
    elif fn in ("create_pipe", "create_pipes"):
        s = "s" if bulk else ""
        kw = {"from_junction" + s: jrefs() if bulk else jref(), "to_junction" + s: jrefs() if bulk else jref(),
              "std_type": rng.choice(PIPE_STD), "length_km": round(rng.uniform(0.05, 2.0), 3)}
        if bulk and rng.random() < 0.4:
            kw["std_type"] = [rng.choice(PIPE_STD) for _ in range(k)]
        if rng.random() < 0.4:
            kw["sections"] = rng.randint(1, 4)
        if rng.random() < 0.3:
            kw["loss_coefficient"] = rng.choice([0.5, 2.0])
        if rng.random() < 0.3:
            kw["text_k"] = round(rng.uniform(270, 295), 1)
        if rng.random() < 0.2 and not bulk:
            kw["geodata"] = [[0.0, 0.0], [1.0, 2.0]]
        if bulk and rng.random() < 0.3:
            kw["geodata"] = rng.choice([[[0.0, 0.0], [1.0, 2.0]], [[[0.0, float(i_)], [1.0, 2.0], [3.0, float(i_)]] for i_ in range(k)]])
        # per-call override of a parameter of the standard type (documented through **kwargs)
        if rng.random() < 0.25:
            kw["k_mm"] = rng.choice([0.05, 0.5])
        if rng.random() < 0.2:
            kw["u_w_per_m2k"] = rng.choice([0.8, 2.5])
    elif fn in ("create_pipe_from_parameters", "create_pipes_from_parameters"):
        s = "s" if bulk else ""
        kw = {"from_junction" + s: jrefs() if bulk else jref(), "to_junction" + s: jrefs() if bulk else jref(),
              "length_km": round(rng.uniform(0.05, 2.0), 3), "inner_diameter_mm": rng.choice([80.0, 100.0, 200.0])}
        for name, val in (("k_mm", rng.choice([0.1, 0.5])), ("sections", rng.randint(1, 4)), ("u_w_per_m2k", round(rng.uniform(0, 5), 2)),
                          ("text_k", round(rng.uniform(270, 295), 1)), ("outer_diameter_mm", 250.0), ("loss_coefficient", 1.0)):
            if rng.random() < 0.35:
                kw[name] = val
        if rng.random() < 0.25:
            kw["geodata"] = [[0.0, 0.0], [1.0, 2.0]] if not bulk or rng.random() < 0.5 else [[[0.0, float(i_)], [2.0, 2.0]] for i_ in range(k)]
    elif fn in ("create_valve", "create_valves"):
        et = "pi" if (P and rng.random() < (0.6 if bulk else 0.4)) else "ju"
        if bulk:
            if et == "pi":
                ps = [rng.choice(P) for _ in range(k)]
                kw = {"junctions": [p[1] for p in ps], "elements": [p[0] for p in ps], "et": "pi"}
            else:
                kw = {"junctions": jrefs(), "elements": jrefs(), "et": "ju"}
        else:
            if et == "pi":
                p = rng.choice(P)
                kw = {"junction": rng.choice([p[1], p[2]]), "element": p[0], "et": "pi"}
            else:
                kw = {"junction": jref(), "element": jref(), "et": "ju"}
        kw["inner_diameter_mm"] = rng.choice([50.0, 100.0])
        if rng.random() < 0.4:
            kw["opened"] = rng.random() < 0.5
        if rng.random() < 0.3:
            kw["loss_coefficient"] = 0.5
    elif fn == "create_pump":
        kw = {"from_junction": jref(), "to_junction": jref(), "std_type": rng.choice(["P1", "P2", "P3"])}
    elif fn == "create_pump_from_parameters":
        st["npumptypes"] = st.get("npumptypes", 0) + 1
        kw = {"from_junction": jref(), "to_junction": jref(), "new_std_type_name": "vpump%d" % st["npumptypes"]}
        if rng.random() < 0.5:
            kw.update(pressure_list=[6.1, 5.8, 4.2, 1.5], flowrate_list=[0.0, 20.0, 40.0, 60.0], reg_polynomial_degree=rng.choice([1, 2]))
        else:
            kw["poly_coefficents"] = [round(rng.uniform(-0.002, -0.0005), 5), 0.02, round(rng.uniform(3, 8), 2)]
    elif fn == "create_compressor":
        kw = {"from_junction": jref(), "to_junction": jref(), "pressure_ratio": round(rng.uniform(1.05, 1.5), 3)}
    elif fn in ("create_pressure_control", "create_pressure_controls"):
        s = "s" if bulk else ""
        kw = {"from_junction" + s: jrefs() if bulk else jref(), "to_junction" + s: jrefs() if bulk else jref(),
              "controlled_junction" + s: jrefs() if bulk else jref(), "controlled_p_bar": round(rng.uniform(1, 10), 2)}
        if not bulk:
            kw["check_controllability"] = False
        if rng.random() < 0.3:
            kw["control_active"] = False
    elif fn in ("create_flow_control", "create_flow_controls"):
        s = "s" if bulk else ""
        kw = {"from_junction" + s: jrefs() if bulk else jref(), "to_junction" + s: jrefs() if bulk else jref(),
              "controlled_mdot_kg_per_s": round(rng.uniform(0.01, 1.0), 3)}
        if rng.random() < 0.3:
            kw["control_active"] = False
    elif fn in ("create_heat_exchanger", "create_heat_exchangers"):
        s = "s" if bulk else ""
        kw = {"from_junction" + s: jrefs() if bulk else jref(), "to_junction" + s: jrefs() if bulk else jref(),
              "qext_w": round(rng.uniform(-1e3, 1e4), 1), "inner_diameter_mm": rng.choice([50.0, 100.0])}
        if rng.random() < 0.3:
            kw["loss_coefficient"] = 1.0
    elif fn == "create_heat_consumers" and rng.random() < 0.5:
        # one specification mode per consumer: the argument arrays are only partly filled (NaN = not given)
        kw = {"from_junctions": jrefs(), "to_junctions": jrefs()}
        cols = {"controlled_mdot_kg_per_s": [], "qext_w": [], "deltat_k": [], "treturn_k": []}
        nan = float("nan")
        for _ in range(k):
            mode = rng.choice(["mq", "md", "mt", "qd", "qt"])
            cols["controlled_mdot_kg_per_s"].append(round(rng.uniform(0.1, 1.0), 3) if "m" in mode else nan)
            cols["qext_w"].append(round(rng.uniform(1e3, 4e4), 0) if "q" in mode else nan)
            cols["deltat_k"].append(round(rng.uniform(5, 25), 1) if "d" in mode else nan)
            cols["treturn_k"].append(round(rng.uniform(300, 330), 1) if "t" in mode else nan)
        kw.update(cols)
    elif fn in ("create_heat_consumer", "create_heat_consumers"):
        s = "s" if bulk else ""
        kw = {"from_junction" + s: jrefs() if bulk else jref(), "to_junction" + s: jrefs() if bulk else jref()}
        mode = rng.choice(["mq", "md", "mt", "qd", "qt"])
        if "m" in mode:
            kw["controlled_mdot_kg_per_s"] = round(rng.uniform(0.1, 1.0), 3)
        if "q" in mode:
            kw["qext_w"] = round(rng.uniform(1e3, 4e4), 0)
        if "d" in mode:
            kw["deltat_k"] = round(rng.uniform(5, 25), 1)
        if "t" in mode:
            kw["treturn_k"] = round(rng.uniform(300, 330), 1)
    elif fn == "create_circ_pump_const_pressure":
        kw = {"return_junction": jref(), "flow_junction": jref(), "p_flow_bar": round(rng.uniform(3, 10), 2),
              "plift_bar": round(rng.uniform(0.5, 3), 2)}
        if rng.random() < 0.6:
            kw["t_flow_k"] = round(rng.uniform(330, 370), 1)
    elif fn == "create_circ_pump_const_mass_flow":
        kw = {"return_junction": jref(), "flow_junction": jref(), "p_flow_bar": round(rng.uniform(3, 10), 2),
              "mdot_flow_kg_per_s": round(rng.uniform(0.1, 2), 3)}
        if rng.random() < 0.6:
            kw["t_flow_k"] = round(rng.uniform(330, 370), 1)
    if bulk and rng.random() < 0.2:
        # a value argument handed over as pandas Series with its own (default) labels: "Iterable" in the docs;
        # the values count by position
        cand = [x for x in sorted(kw) if isinstance(kw[x], list) and "junction" not in x and x not in ("elements", "geodata", "std_type", "et")
                and all(isinstance(v_, (int, float)) for v_ in kw[x])]
        if cand:
            key = rng.choice(cand)
            kw[key] = {"__series__": list(kw[key])}
    if explicit_index:
        if fn == "create_junctions":
            kw["index"] = _new_index(rng, st, "junction", k)
        else:
            kw["index"] = _new_index(rng, st, table, k) if bulk else _new_index(rng, st, table)
    # ---- fault injection: one invalid argument -------------------------------------------------
    fkind = None
    if fault is not None:
        cands = []
        refkeys = [x for x in kw if "junction" in x and x != "nr_junctions"]
        if refkeys:
            cands.append("missing-junction")
        if fn in ("create_valve", "create_valves") and kw.get("et") == "pi":
            cands += ["missing-pipe", "pipe-not-at-junction"]
        if fn in ("create_valve", "create_valves"):
            cands.append("unknown-et")
        if "std_type" in kw:
            cands.append("unknown-std-type")
        if "index" in kw and _existing(st, table):
            cands.append("duplicate-index")
        if bulk and fn != "create_junctions":
            cands.append("wrong-length-array")
        if "geodata" in kw or fn in ("create_junction",):
            cands.append("bad-geodata")
        if fn == "create_mass_storage":
            cands.append("negative-storage-bound")
        if fn == "create_pump_from_parameters":
            cands += ["duplicate-std-type-name", "no-std-type-data"]
        if fn in ("create_ext_grid",):
            cands.append("ext-grid-no-values")
        if bulk and fn in ("create_sinks", "create_sources", "create_junctions", "create_pipes", "create_pipes_from_parameters",
                           "create_ext_grids", "create_heat_exchangers", "create_heat_consumers", "create_flow_controls",
                           "create_pressure_controls"):
            cands.append("nan-in-bool")
        if not cands:
            fkind = None
        else:
            fkind = rng.choice(cands)
            if "pipe-not-at-junction" in cands and rng.random() < 0.5:
                fkind = "pipe-not-at-junction"
            _inject(rng, st, fn, kw, fkind, k, table)
    op = {"op": "create", "fn": fn, "kw": kw, "fault": fkind}
    # ---- generator-side bookkeeping (valid calls are expected to succeed) --------------------------
    if fkind is None:
        if fn == "create_junction":
            idx = kw.get("index")
            if idx is None:
                idx = _implicit_next(st, "junction")
            st["junctions"].append(idx)
            _note(st, "junction", [idx])
        elif fn == "create_junctions":
            idx = kw.get("index")
            if idx is None:
                idx = [_implicit_next(st, "junction") for _ in range(k)]
            st["junctions"] += list(idx)
            _note(st, "junction", idx)
        else:
            idx = kw.get("index")
            if idx is None:
                idx = [_implicit_next(st, table) for _ in range(k)] if bulk else _implicit_next(st, table)
            ids = idx if isinstance(idx, list) else [idx]
            _note(st, table, ids)
            if table == "pipe":
                fj = kw.get("from_junction", kw.get("from_junctions"))
                tj = kw.get("to_junction", kw.get("to_junctions"))
                fj = fj if isinstance(fj, list) else [fj] * len(ids)
                tj = tj if isinstance(tj, list) else [tj] * len(ids)
                for i, a, b in zip(ids, fj, tj):
                    st["pipes"].append((i, a, b))
    return op


def _existing(st, table):
    return st.setdefault("exist", {}).get(table, [])


def _note(st, table, ids):
    st.setdefault("exist", {}).setdefault(table, []).extend(ids)
    mx = max(ids) + 1
    if st["next"].get(table, 0) < mx:
        st["next"][table] = mx


def _implicit_next(st, table):
    ex = _existing(st, table)
    return (max(ex) + 1) if ex else 0


def _inject(rng, st, fn, kw, fkind, k, table):
    missing = max(st["junctions"] + [0]) + 1000
    if fkind == "missing-junction":
        key = rng.choice([x for x in kw if "junction" in x and x != "nr_junctions"])
        if isinstance(kw[key], list):
            kw[key] = list(kw[key])
            kw[key][rng.randrange(len(kw[key]))] = missing
        else:
            kw[key] = missing
    elif fkind == "missing-pipe":
        key = "element" if "element" in kw else "elements"
        if isinstance(kw[key], list):
            kw[key] = list(kw[key])
            kw[key][0] = 99999
        else:
            kw[key] = 99999
    elif fkind == "pipe-not-at-junction":
        key = "junction" if "junction" in kw else "junctions"
        others = [j for j in st["junctions"]]
        p = [p for p in st["pipes"] if p[0] == (kw["element"] if "element" in kw else kw["elements"][0])]
        bad = [j for j in others if p and j not in (p[0][1], p[0][2])]
        if "elements" in kw and p:
            # preferably an end of another pipe of the same call (a per-call membership test would accept it)
            ends = [j for q in st["pipes"] if q[0] in kw["elements"][1:] for j in (q[1], q[2]) if j not in (p[0][1], p[0][2])]
            if ends:
                bad = ends
        if not bad:
            kw["et"] = "xx"
            return
        if isinstance(kw[key], list):
            kw[key] = list(kw[key])
            kw[key][0] = bad[0]
        else:
            kw[key] = bad[0]
    elif fkind == "unknown-et":
        kw["et"] = "xx"
    elif fkind == "unknown-std-type":
        kw["std_type"] = "no_such_type"
    elif fkind == "duplicate-std-type-name":
        kw["new_std_type_name"] = "P1"
    elif fkind == "no-std-type-data":
        for x in ("pressure_list", "flowrate_list", "reg_polynomial_degree", "poly_coefficents"):
            kw.pop(x, None)
    elif fkind == "duplicate-index":
        ex = _existing(st, table)
        if isinstance(kw["index"], list):
            kw["index"] = list(kw["index"])
            kw["index"][-1] = rng.choice(ex)
        else:
            kw["index"] = rng.choice(ex)
    elif fkind == "wrong-length-array":
        cand = [x for x in kw if isinstance(kw[x], list) and x not in ("index", "geodata", "pressure_list", "flowrate_list", "poly_coefficents") and "junction" not in x and x != "elements"]
        if cand:
            key = rng.choice(cand)
            kw[key] = list(kw[key]) + [kw[key][0]]
        else:
            key = rng.choice([x for x in ("mdot_kg_per_s", "p_bar", "length_km", "inner_diameter_mm", "controlled_mdot_kg_per_s", "qext_w", "controlled_p_bar") if x in kw and not isinstance(kw[x], dict)] or ["name"])
            kw[key] = [kw.get(key, "n")] * (k + 1) if key != "name" else ["n"] * (k + 1)
    elif fkind == "bad-geodata":
        kw["geodata"] = [1.0, 2.0, 3.0] if fn == "create_junction" else rng.choice([[1.0, 2.0, 3.0], "xy"])
    elif fkind == "negative-storage-bound":
        kw.update(min_m_stored_kg=-5.0)
    elif fkind == "ext-grid-no-values":
        kw.pop("p_bar", None)
        kw.pop("t_k", None)
    elif fkind == "nan-in-bool":
        kw["in_service"] = [True] * (k - 1) + [float("nan")] if k else [float("nan")]


# documented defaults (from the docstrings) of optional arguments that influence a calculation
DOCUMENTED_DEFAULTS = {
    "create_pipe": {"loss_coefficient": 0, "sections": 1, "text_k": None, "in_service": True},
    "create_pipe_from_parameters": {"k_mm": 0.2, "loss_coefficient": 0, "sections": 1, "u_w_per_m2k": 0.0,
                                    "text_k": None, "in_service": True},
    "create_sink": {"scaling": 1.0, "in_service": True},
    "create_junction": {"height_m": 0, "in_service": True},
    "create_valve": {"opened": True, "loss_coefficient": 0},
}
# reference columns per table (junction references; pipe references handled for valves)
REF_COLS = {"sink": ["junction"], "source": ["junction"], "mass_storage": ["junction"], "ext_grid": ["junction"],
            "pipe": ["from_junction", "to_junction"], "pump": ["from_junction", "to_junction"],
            "compressor": ["from_junction", "to_junction"], "flow_control": ["from_junction", "to_junction"],
            "heat_exchanger": ["from_junction", "to_junction"], "heat_consumer": ["from_junction", "to_junction"],
            "press_control": ["from_junction", "to_junction", "controlled_junction"],
            "circ_pump_pressure": ["return_junction", "flow_junction"],
            "circ_pump_mass": ["return_junction", "flow_junction"], "valve": ["junction"]}
KW_TO_COL = {"from_junctions": "from_junction", "to_junctions": "to_junction", "junctions": "junction",
             "elements": "element", "controlled_junctions": "controlled_junction"}
NOT_COLUMNS = {"index", "geodata", "nr_junctions", "check_controllability", "new_std_type_name"}


def _row_digests(net):
    out = {}
    for t in sorted(k for k in net.keys() if isinstance(k, str) and not k.startswith("_") and isinstance(net[k], pd.DataFrame)):
        df = net[t]
        rows = {}
        for i in range(len(df)):
            rows[snap.canon_deep(df.index[i])] = {str(c): _canon_cell(df.iloc[i, ci]) for ci, c in enumerate(df.columns)}
        out[t] = (rows, tuple("%s:%s" % (c, df[c].dtype) for c in df.columns))
    return out


def _canon_cell(v):
    """None and NaN both mean 'no value' in an element table cell."""
    if v is None or (isinstance(v, (float, np.floating)) and np.isnan(v)):
        return "<missing>"
    return snap.canon_deep(v)


def check_integrity(net):
    """Dangling references: list of 'table.column'."""
    bad = []
    J = set(net.junction.index) if "junction" in net else set()
    for t, cols in REF_COLS.items():
        if t not in net or not len(net[t]):
            continue
        for c in cols:
            if c in net[t] and not set(net[t][c].values.tolist()) <= J:
                bad.append("%s.%s" % (t, c))
    if "valve" in net and len(net.valve):
        v = net.valve
        ju = v[v.et == "ju"]
        if not set(ju.element.values.tolist()) <= J:
            bad.append("valve.element[ju]")
        pi = v[v.et == "pi"]
        P = set(net.pipe.index) if "pipe" in net else set()
        if not set(pi.element.values.tolist()) <= P:
            bad.append("valve.element[pi]")
        else:
            for _, r in pi.iterrows():
                p = net.pipe.loc[r.element]
                if r.junction not in (p.from_junction, p.to_junction):
                    bad.append("valve.junction[pi]-not-at-pipe")
                    break
    for t in sorted(k for k in net.keys() if isinstance(k, str) and isinstance(net[k], pd.DataFrame) and not k.startswith("_")):
        if not net[t].index.is_unique:
            bad.append("%s.index-not-unique" % t)
    return bad


def _exec_c16(trace, res):
    from pandapipes.pandapipes_net import Sector
    net = pp.create_empty_network(fluid=trace["fluid"], sector=Sector(trace.get("sector", "all")))
    res.sig_parts.append(trace["fluid"] + ":" + trace.get("sector", "all"))
    for oi, op in enumerate(trace["ops"]):
        fn, kw, fault = op["fn"], copy.deepcopy(op["kw"]), op.get("fault")
        for k_ in list(kw):
            if isinstance(kw[k_], dict) and "__series__" in kw[k_]:
                kw[k_] = pd.Series(kw[k_]["__series__"])
                res.count("probe:series-valued-argument")
        f = getattr(pp, fn)
        before = snap.snapshot(net)
        std_before = copy.deepcopy(net.get("std_types", {}))
        rows_before = _row_digests(net)
        kw_before = copy.deepcopy(kw)
        table = netmodel.TABLE_OF[fn]
        # Whether a reference / index / type name is invalid depends on what earlier calls really left behind
        # (the generator assumed valid calls succeed and rejected ones leave nothing; shrinking removes calls):
        # state-dependent validity is always re-derived from the net as it is.
        if fault is None or fault in STATE_FAULTS:
            eff = _effective_fault(net, fn, kw, table)
            if fault is None and eff:
                res.count("probe:history-made-call-invalid:%s" % eff)
            elif fault is not None and eff is None:
                res.count("probe:history-made-call-valid:%s" % fault)
            fault = eff
        integrity_before = set(check_integrity(net))
        try:
            ret = f(net, **kw)
            outcome = "ok"
        except Exception as e:
            ret, outcome = e, "exc:" + type(e).__name__
        res.calcs += 1
        res.nontrivial = True
        res.log.add("op", oi, fn, fault, outcome)
        res.sig_parts.append("%s:%s:%s" % (fn[7:], fault or "-", outcome[:3]))
        res.count("cell:c16:%s:%s:%s" % (fn[7:], fault or "valid", outcome[:3]))
        if fault:
            res.count("fault:%s" % fault)
        if snap.canon_deep(kw) != snap.canon_deep(kw_before):
            res.violate("C16", "C16/caller-arguments-mutated:%s" % fn, "", oi)
        after = snap.snapshot(net)
        if outcome != "ok":
            res.oracle_checks += 1
            d = snap.diff(before, after)
            for x in d:
                res.violate("C16", "C16/not-atomic:%s:%s:%s" % (fn, fault or "valid-args", x.split(".")[0]), "%s after %s" % (x, outcome), oi)
            if fault is None:
                import re as _re
                slug = _re.sub(r"[^a-z]+", "-", str(ret).lower())[:40].strip("-")
                res.violate("C16", "C16/valid-call-rejected:%s:%s:%s" % (fn, outcome[4:], slug), repr(ret)[:200], oi)
            continue
        # ---- success ------------------------------------------------------------------------------
        if fault in ("missing-junction", "missing-pipe", "unknown-std-type", "duplicate-index", "unknown-et", "pipe-not-at-junction",
                     "duplicate-std-type-name", "no-std-type-data"):   # (all of these are re-derived from the net's state)
            res.violate("C16", "C16/invalid-accepted:%s:%s" % (fn, fault), "", oi)
            continue
        # ---- a successful call adds rows (and, for create_pump_from_parameters, exactly its new standard type):
        # every other entry of the net - standard types, fluid, name ... - is left alone
        for k_ in sorted(set(before) | set(after)):
            if isinstance(before.get(k_), dict) or isinstance(after.get(k_), dict) or k_ in ("component_list",):
                continue
            if before.get(k_) != after.get(k_):
                if k_ == "std_types" and fn == "create_pump_from_parameters":
                    now = net.get("std_types", {})
                    rest = {c: {n_: v for n_, v in d_.items() if not (c == "pump" and n_ == kw["new_std_type_name"])} for c, d_ in now.items()}
                    if snap.canon_deep(rest) == snap.canon_deep(std_before) and kw["new_std_type_name"] in now.get("pump", {}):
                        continue
                res.violate("C16", "C16/net-entry-changed:%s:%s" % (fn, k_), "", oi)
        if fault in ("wrong-length-array", "bad-geodata", "negative-storage-bound", "nan-in-bool", "ext-grid-no-values"):
            # malformed input that was accepted: the net must at least stay referentially intact
            res.count("probe:malformed-accepted:%s" % fault)
        rows_after = _row_digests(net)
        new_idx = list(ret) if isinstance(ret, (list, tuple, np.ndarray, pd.Index)) else [ret]
        n_expected = len(new_idx)
        for t in sorted(set(rows_before) | set(rows_after)):
            rb = rows_before.get(t, ({}, ()))[0]
            ra = rows_after.get(t, ({}, ()))[0]
            gone = [k for k in rb if k not in ra]
            changed = [k for k in rb if k in ra and any(ra[k].get(c) != v for c, v in rb[k].items())]
            added = [k for k in ra if k not in rb]
            if gone or changed:
                cols = sorted({c for k in changed for c, v in rb[k].items() if ra[k].get(c) != v})
                ex = ""
                if changed and cols:
                    ex = " e.g. %s: %s -> %s" % (cols[0], rb[changed[0]].get(cols[0]), ra[changed[0]].get(cols[0]))
                res.violate("C16", "C16/existing-rows-changed:%s:%s.%s" % (fn, t, cols[0] if cols else "-"),
                            "gone %d changed %d cols %s%s" % (len(gone), len(changed), cols, ex), oi)
            if t == table:
                if len(added) != n_expected:
                    res.violate("C16", "C16/wrong-number-of-rows:%s" % fn, "%d added, %d returned" % (len(added), n_expected), oi)
            elif added and t not in (table + "_geodata",):
                res.violate("C16", "C16/rows-added-elsewhere:%s:%s" % (fn, t), "", oi)
            if t in rows_before and t in rows_after and rows_before[t][1] != rows_after[t][1]:
                old = dict(x.split(":") for x in rows_before[t][1])
                new = dict(x.split(":") for x in rows_after[t][1])
                for c in old:
                    if c in new and old[c] != new[c]:
                        res.violate("C16", "C16/dtype-changed:%s:%s.%s" % (fn, t, c), "%s -> %s" % (old[c], new[c]), oi)
        df = net[table]
        if not df.index.is_unique:
            res.violate("C16", "C16/index-not-unique:%s" % fn, "", oi)
        if "index" in kw and snap.canon_deep(list(np.atleast_1d(kw["index"]))) != snap.canon_deep([int(i) for i in new_idx]):
            res.violate("C16", "C16/index-not-honoured:%s" % fn, "%r vs %r" % (kw["index"], new_idx), oi)
        # passed values stored
        for k_, v in kw.items():
            col = KW_TO_COL.get(k_, k_)
            if k_ in NOT_COLUMNS or col not in df.columns:
                continue
            vals = v if isinstance(v, list) else (list(v.values) if isinstance(v, pd.Series) else [v] * len(new_idx))
            if len(vals) != len(new_idx):
                continue
            for i, want in zip(new_idx, vals):
                got = df.at[i, col]
                if not _same_value(got, want):
                    if fn.startswith("create_ext_grid") and col == "type":
                        continue
                    res.violate("C16", "C16/value-not-stored:%s.%s" % (fn, col), "got %r want %r" % (got, want), oi)
                    break
        # omitted optionals at their (signature) defaults
        try:
            sig = inspect.signature(getattr(__import__("pandapipes.create", fromlist=["x"]), fn).__wrapped__ if hasattr(f, "__wrapped__") else f)
            params = sig.parameters
        except (TypeError, ValueError):
            params = {}
        for pname, p in params.items():
            if pname in kw or p.default is inspect._empty or pname in NOT_COLUMNS or pname in ("net", "kwargs", "type"):
                continue
            col = KW_TO_COL.get(pname, pname)
            if col not in df.columns:
                continue
            for i in new_idx:
                got = df.at[i, col]
                if not _same_value(got, p.default):
                    res.violate("C16", "C16/default-not-applied:%s.%s" % (fn, col), "got %r want %r" % (got, p.default), oi)
                    break
        if fn == "create_pump_from_parameters" and not all(df.at[i, "std_type"] == kw["new_std_type_name"] for i in new_idx):
            res.violate("C16", "C16/value-not-stored:%s.std_type" % fn, "", oi)
        for b in sorted(set(check_integrity(net)) - integrity_before):
            res.violate("C16", "C16/dangling:%s@%s" % (b, fn), "", oi)
        res.oracle_checks += 1
    _tail_c16(trace, res)


STATE_FAULTS = {"missing-junction", "missing-pipe", "pipe-not-at-junction", "duplicate-index", "unknown-std-type",
                "duplicate-std-type-name", "no-std-type-data", "unknown-et"}


def _effective_fault(net, fn, kw, table):
    """The generator assumed earlier valid calls succeeded and faulted ones left nothing behind;
    re-derive validity of a nominally valid call against the net as it really is."""
    J = set(net.junction.index) if "junction" in net else set()
    for k, v in kw.items():
        if "junction" in k and k != "nr_junctions":
            vals = v if isinstance(v, list) else [v]
            if not set(vals) <= J:
                return "missing-junction"
    if fn in ("create_valve", "create_valves"):
        ets = kw.get("et")
        if any(e_ not in ("ju", "pi") for e_ in (ets if isinstance(ets, list) else [ets])):
            return "unknown-et"
        els = kw.get("element", kw.get("elements"))
        els = els if isinstance(els, list) else [els]
        if kw.get("et") == "ju" and not set(els) <= J:
            return "missing-junction"
        if kw.get("et") == "pi":
            if "pipe" not in net:
                return "missing-pipe"
            P = set(net.pipe.index) if "pipe" in net else set()
            if not set(els) <= P:
                return "missing-pipe"
            js = kw.get("junction", kw.get("junctions"))
            js = js if isinstance(js, list) else [js] * len(els)
            for j, p in zip(js, els):
                if j not in (net.pipe.at[p, "from_junction"], net.pipe.at[p, "to_junction"]):
                    return "pipe-not-at-junction"
    if "std_type" in kw:
        comp = "pump" if table == "pump" else "pipe"
        have = net.get("std_types", {}).get(comp, {})
        sts = kw["std_type"] if isinstance(kw["std_type"], list) else [kw["std_type"]]
        if any(st not in have for st in sts):
            return "unknown-std-type"   # (the sector's library does not hold it)
    if fn == "create_pump_from_parameters":
        have = net.get("std_types", {}).get("pump", {})
        has_data = ("poly_coefficents" in kw) or all(x in kw for x in ("pressure_list", "flowrate_list", "reg_polynomial_degree"))
        if has_data and kw["new_std_type_name"] in have:
            return "duplicate-std-type-name"
        if not has_data and kw["new_std_type_name"] not in have:
            return "no-std-type-data"
    if "index" in kw and table in net:
        idx = kw["index"] if isinstance(kw["index"], list) else [kw["index"]]
        if set(idx) & set(net[table].index):
            return "duplicate-index"
    return None


def _same_value(got, want):
    if want is None:
        return got is None or (isinstance(got, float) and np.isnan(got))
    if isinstance(want, float) and np.isnan(want):
        return isinstance(got, (float, np.floating)) and np.isnan(got)
    if isinstance(want, bool) or isinstance(got, (bool, np.bool_)):
        return bool(got) == bool(want) and isinstance(got, (bool, np.bool_))
    if isinstance(want, (int, float)) and isinstance(got, (int, float, np.integer, np.floating)):
        return float(got) == float(want)
    return got == want


def _tables_equal(a, b, tables):
    diffs = []
    for t in tables:
        if t not in a or t not in b:
            diffs.append("%s:missing" % t)
            continue
        da, db = snap.df_columns_digest(a[t]), snap.df_columns_digest(b[t])
        for c in sorted(set(da) | set(db)):
            if da.get(c) != db.get(c):
                kind = ":dtype" if (da.get(c) and db.get(c) and da[c].split(":")[0] != db[c].split(":")[0]) else ""
                diffs.append("%s.%s%s" % (t, c, kind))
    return diffs


def _tail_c16(trace, res):
    tail = trace["tail"]
    rng = random.Random(tail["seed"])
    n = tail["n"]

    def base():
        net = pp.create_empty_network(fluid=trace["fluid"])
        pp.create_junctions(net, 5, 5.0, 300.0, index=[0, 1, 2, 3, 4])
        pp.create_pipe_from_parameters(net, 0, 1, 1.0, 100.0, index=0)
        pp.create_pipe_from_parameters(net, 1, 2, 1.0, 100.0, index=1)
        return net
    kind = tail["bulk_vs_single"]
    J = [0, 1, 2, 3, 4]
    a, b = base(), base()
    items = []
    for i in range(n):
        fj, tj = rng.choice(J), rng.choice(J)
        items.append({"fj": fj, "tj": tj, "x": round(rng.uniform(0.01, 1.0), 4), "y": round(rng.uniform(280, 350), 1), "i": 10 + 3 * i})
    idx = [it["i"] for it in items]
    try:
        if kind == "sinks":
            for it in items:
                pp.create_sink(a, it["fj"], it["x"], index=it["i"])
            pp.create_sinks(b, [it["fj"] for it in items], [it["x"] for it in items], index=idx)
            t = ["sink"]
        elif kind == "sources":
            for it in items:
                pp.create_source(a, it["fj"], it["x"], index=it["i"])
            pp.create_sources(b, [it["fj"] for it in items], [it["x"] for it in items], index=idx)
            t = ["source"]
        elif kind == "junctions":
            for it in items:
                pp.create_junction(a, it["x"] * 10, it["y"], index=it["i"])
            pp.create_junctions(b, n, [it["x"] * 10 for it in items], [it["y"] for it in items], index=idx)
            t = ["junction"]
        elif kind == "pipes":
            for it in items:
                pp.create_pipe(a, it["fj"], it["tj"], tail["std_type"], it["x"], index=it["i"])
            stypes = [PIPE_STD[(rng.randrange(len(PIPE_STD)))] for _ in items] if rng.random() < 0.5 else None
            if stypes:
                a = base()
                for it, st_ in zip(items, stypes):
                    pp.create_pipe(a, it["fj"], it["tj"], st_, it["x"], index=it["i"])
            pp.create_pipes(b, [it["fj"] for it in items], [it["tj"] for it in items], stypes or tail["std_type"], [it["x"] for it in items], index=idx)
            t = ["pipe"]
        elif kind == "pipes_par":
            for it in items:
                pp.create_pipe_from_parameters(a, it["fj"], it["tj"], it["x"], 100.0, index=it["i"])
            pp.create_pipes_from_parameters(b, [it["fj"] for it in items], [it["tj"] for it in items], [it["x"] for it in items], 100.0, index=idx)
            t = ["pipe"]
        elif kind == "valves":
            for it in items:
                pp.create_valve(a, it["fj"], it["tj"], "ju", 80.0, index=it["i"])
            pp.create_valves(b, [it["fj"] for it in items], [it["tj"] for it in items], "ju", 80.0, index=idx)
            t = ["valve"]
        elif kind == "ext_grids":
            for it in items:
                pp.create_ext_grid(a, it["fj"], it["x"] * 10, it["y"], index=it["i"])
            pp.create_ext_grids(b, [it["fj"] for it in items], [it["x"] * 10 for it in items], [it["y"] for it in items], index=idx)
            t = ["ext_grid"]
        elif kind == "flow_controls":
            for it in items:
                pp.create_flow_control(a, it["fj"], it["tj"], it["x"], index=it["i"])
            pp.create_flow_controls(b, [it["fj"] for it in items], [it["tj"] for it in items], [it["x"] for it in items], index=idx)
            t = ["flow_control"]
        elif kind == "press_controls":
            for it in items:
                pp.create_pressure_control(a, it["fj"], it["tj"], it["tj"], it["x"] * 5, index=it["i"], check_controllability=False)
            pp.create_pressure_controls(b, [it["fj"] for it in items], [it["tj"] for it in items], [it["tj"] for it in items],
                                        [it["x"] * 5 for it in items], index=idx)
            t = ["press_control"]
        elif kind == "heat_exchangers":
            for it in items:
                pp.create_heat_exchanger(a, it["fj"], it["tj"], it["x"] * 1e4, 100.0, index=it["i"])
            pp.create_heat_exchangers(b, [it["fj"] for it in items], [it["tj"] for it in items], [it["x"] * 1e4 for it in items], 100.0, index=idx)
            t = ["heat_exchanger"]
        else:
            for it in items:
                pp.create_heat_consumer(a, it["fj"], it["tj"], qext_w=it["x"] * 1e4, controlled_mdot_kg_per_s=it["x"], index=it["i"])
            pp.create_heat_consumers(b, [it["fj"] for it in items], [it["tj"] for it in items], qext_w=[it["x"] * 1e4 for it in items],
                                     controlled_mdot_kg_per_s=[it["x"] for it in items], index=idx)
            t = ["heat_consumer"]
        for d in _tables_equal(a, b, t):
            res.violate("C16", "C16/bulk-differs-from-single:%s:%s" % (kind, d), "", len(trace["ops"]))
        res.count("probe:bulk-vs-single:%s" % kind)
        res.oracle_checks += 1
    except Exception as e:
        res.violate("C16", "C16/bulk-vs-single-raised:%s:%s" % (kind, type(e).__name__), repr(e)[:200], len(trace["ops"]))
    # ---- bulk == one by one also in what is refused: a pipe-end valve at a junction of ANOTHER pipe of the call ------
    a, b = base(), base()
    pj = rng.choice([(0, 1, 2), (2, 1, 0)])      # (junction of the first valve, its pipe, the junction that is wrong for pipe 1 / 0)
    js, els = ([0, 0], [0, 1]) if pj[0] == 0 else ([2, 2], [1, 0])
    single_refused = False
    try:
        pp.create_valve(a, js[0], els[0], "pi", 80.0)
        pp.create_valve(a, js[1], els[1], "pi", 80.0)
    except UserWarning:
        single_refused = True
    try:
        pp.create_valves(b, js, els, "pi", 80.0)
        if single_refused:
            res.violate("C16", "C16/invalid-accepted:create_valves:pipe-not-at-junction", "one by one refused, bulk accepted %r at %r" % (els, js),
                        len(trace["ops"]))
    except UserWarning:
        if "valve" in b and len(b.valve):
            res.violate("C16", "C16/not-atomic:create_valves:pipe-not-at-junction:valve", "", len(trace["ops"]))
    res.oracle_checks += 1
    # ---- std type vs parameters -------------------------------------------------------------------
    a, b = base(), base()
    st = tail["std_type"]
    params = pp.std_types.load_std_type(a, st, "pipe") if hasattr(pp, "std_types") else {}
    try:
        if rng.random() < 0.4:
            st = rng.choice(HEAT_PIPE_STD)      # district-heating types carry a heat transfer value per metre
            params = pp.std_types.load_std_type(a, st, "pipe")
        pp.create_pipe(a, 2, 3, st, 0.7, index=20)
        par = dict(params)
        # every parameter of the type that create_pipe_from_parameters takes (the per-metre heat transfer value is
        # documented to be converted with the outer circumference)
        kwp = {"inner_diameter_mm": par["inner_diameter_mm"], "outer_diameter_mm": par["outer_diameter_mm"], "k_mm": par["k_mm"]}
        u2, u1 = par.get("u_w_per_m2k", float("nan")), par.get("u_w_per_mk", float("nan"))
        kwp["u_w_per_m2k"] = u2 if not np.isnan(u2) else (u1 / (par["outer_diameter_mm"] * np.pi) * 1000.0 if not np.isnan(u1) else float("nan"))
        pp.create_pipe_from_parameters(b, 2, 3, 0.7, index=20, **kwp)
        for c in a.pipe.columns:
            if c in ("std_type", "name"):
                continue
            x, y = a.pipe.at[20, c], b.pipe.at[20, c]
            same = _same_value(x, y) or (isinstance(x, float) and isinstance(y, float) and abs(x - y) <= 1e-12 * abs(y))
            if not same or a.pipe[c].dtype != b.pipe[c].dtype:
                res.violate("C16", "C16/std-type-differs-from-parameters:pipe.%s" % c, "%r vs %r" % (x, y), len(trace["ops"]))
        if sorted(a.pipe.columns) != sorted(b.pipe.columns):
            res.violate("C16", "C16/std-type-differs-from-parameters:pipe.@columns", "", len(trace["ops"]))
        if not _same_value(a.pipe.at[20, "inner_diameter_mm"], float(par["inner_diameter_mm"])):
            res.violate("C16", "C16/std-type-parameter-not-reached:pipe.inner_diameter_mm", "", len(trace["ops"]))
        res.oracle_checks += 1
    except Exception as e:
        res.violate("C16", "C16/std-type-vs-parameters-raised:%s" % type(e).__name__, repr(e)[:200], len(trace["ops"]))
    # ---- omitted optionals == documented defaults passed explicitly ---------------------------------
    fn = tail["defaults_fn"]
    a, b = base(), base()
    try:
        doc = DOCUMENTED_DEFAULTS[fn]
        if fn == "create_pipe":
            pp.create_pipe(a, 2, 3, st, 0.7, index=20)
            pp.create_pipe(b, 2, 3, st, 0.7, index=20, **doc)
            t = "pipe"
        elif fn == "create_pipe_from_parameters":
            pp.create_pipe_from_parameters(a, 2, 3, 0.7, 100.0, index=20)
            pp.create_pipe_from_parameters(b, 2, 3, 0.7, 100.0, index=20, **doc)
            t = "pipe"
        elif fn == "create_sink":
            pp.create_sink(a, 2, 0.3, index=20)
            pp.create_sink(b, 2, 0.3, index=20, **doc)
            t = "sink"
        elif fn == "create_junction":
            pp.create_junction(a, 5.0, 300.0, index=20)
            pp.create_junction(b, 5.0, 300.0, index=20, **doc)
            t = "junction"
        else:
            pp.create_valve(a, 2, 3, "ju", 80.0, index=20)
            pp.create_valve(b, 2, 3, "ju", 80.0, index=20, **doc)
            t = "valve"
        for d in _tables_equal(a, b, [t]):
            res.violate("C16", "C16/default-differs:%s.%s" % (fn, d.split(".")[-1]), "", len(trace["ops"]))
        res.count("probe:documented-defaults:%s" % fn)
        res.oracle_checks += 1
    except Exception as e:
        res.violate("C16", "C16/documented-default-rejected:%s:%s" % (fn, type(e).__name__), repr(e)[:200], len(trace["ops"]))


# ==========================================================================================
# C17
# ==========================================================================================
def _gen_c17(rng, seed, tier):
    fam = rng.choice(["gas", "water", "water", "heat"])
    kinds = None
    # biased scenario (40 %): unsorted labels, a relabelling that reorders tables and is NOT followed by a
    # recalculation, then a selection / drop / fuse that has to find the right rows again
    scenario = rng.random() < 0.4
    # second biased scenario (15 %): three or four valves at pipe ends, unsorted labels, relabellings followed by a
    # recalculation (the internal nodes of such valves are matched to their pipes through sorted label pairs)
    scenario2 = (not scenario) and fam != "heat" and rng.random() < 0.25
    program, meta = netgen.gen_program(rng, family=fam, max_junctions=rng.choice([4, 6, 8]),
                                       sorted_labels=False if (scenario or scenario2) else rng.random() < 0.5, kinds=kinds,
                                       many_pi=scenario2)
    nops = rng.randint(0, 2) if scenario else rng.randint(1, 5 if tier == "quick" else 10)
    ops = []
    for _ in range(nops):
        pool = ["reindex_junctions", "reindex_junctions", "reindex_pipes", "reindex_elements", "continuous_junction",
                "continuous_elements", "drop_junctions", "drop_pipes", "drop_elements_at_junctions",
                "fuse_junctions", "select_subnet", "select_subnet", "extend_then_drop", "calc"]
        if scenario2:
            pool = ["reindex_junctions", "reindex_pipes", "reindex_pipes", "reindex_elements", "continuous_elements", "continuous_junction"]
        kind = rng.choice(pool)
        ops.append({"op": kind, "r": rng.randrange(1 << 30)})
    if scenario:
        ops.append({"op": rng.choice(["continuous_elements", "continuous_elements", "continuous_elements", "reindex_pipes",
                                      "reindex_elements", "continuous_junction"]), "r": rng.randrange(1 << 30), "no_resolve": True})
        ops.append({"op": rng.choice(["select_subnet", "select_subnet", "select_subnet", "drop_junctions", "fuse_junctions"]),
                    "r": rng.randrange(1 << 30), "with_results": True})
    if scenario2:
        for o in ops:
            o["resolve"] = True
    # options stored with the net: a subnet / relabelled net must be calculated with them as well
    user_opts = rng.choice([None, None, {"friction_model": "colebrook"}, {"friction_model": "swamee-jain"},
                            {"ambient_temperature": 278.15}])
    return {"engine": ENGINE, "prop": "C17", "seed": seed, "tier": tier, "program": program, "meta": meta, "ops": ops,
            "user_opts": user_opts}


def _tag(net):
    """Identity tags in a custom column so that elements can be matched across relabelling."""
    for t in sorted(k for k in net.keys() if isinstance(k, str) and isinstance(net[k], pd.DataFrame) and not k.startswith("_")
                    and not k.startswith("res_") and "geodata" not in k and k not in ("controller", "output_writer")):
        if len(net[t]):
            net[t]["vtag"] = ["%s#%d" % (t, i) for i in net[t].index]


def _identity_state(net):
    """{tag: canonical row with references replaced by the referenced element's tag}."""
    jt = dict(zip(net.junction.index, net.junction.vtag)) if "junction" in net and "vtag" in net.junction else {}
    pt = dict(zip(net.pipe.index, net.pipe.vtag)) if "pipe" in net and "vtag" in net.pipe else {}
    out = {}
    for t in sorted(k for k in net.keys() if isinstance(k, str) and isinstance(net[k], pd.DataFrame) and not k.startswith("_")
                    and not k.startswith("res_") and "geodata" not in k and k not in ("controller", "output_writer")):
        df = net[t]
        if "vtag" not in df.columns:
            continue
        refs = REF_COLS.get(t, [])
        for i in range(len(df)):
            row = df.iloc[i]
            d = {}
            for c in df.columns:
                v = row[c]
                if c in refs:
                    v = jt.get(v, "MISSING:%r" % (v,))
                elif t == "valve" and c == "element":
                    v = (pt if row["et"] == "pi" else jt).get(v, "MISSING:%r" % (v,))
                elif c in ("old_index",):
                    continue
                d[c] = v
            out[row["vtag"]] = snap.canon_deep(d)
    return out


def _mode_of(meta):
    return "sequential" if meta.get("thermal") and not meta.get("needs_bidirectional") else ("bidirectional" if meta.get("needs_bidirectional") else "hydraulics")


def _solve(net, meta):
    mode = _mode_of(meta)
    try:
        pp.pipeflow(net, mode=mode, use_numba=False, **TIGHT)
        return "ok"
    except PipeflowNotConverged:
        return "nc"
    except Exception as e:
        return "exc:" + type(e).__name__


def _almost_converged(net):
    """A run that used up its budget while creeping towards the solution (flowless loops converge only linearly
    and stall at the round-off floor): not a verdict difference worth the name."""
    ir = net.get("_internal_results", {})
    last = [v[-1] for k, v in ir.items() if isinstance(v, list) and v]
    # (a NaN residual is a failed solve - e.g. the thermal NaN guard - not slow convergence)
    resid = [v for k, v in ir.items() if isinstance(k, str) and k.startswith("residual_norm") and v is not None]
    if any(not np.isfinite(x) for x in resid):
        return False
    return bool(last) and all(np.isfinite(x) and x < 1e-5 for x in last)


def _retry_with_patience(net, kw):
    """A calculation that ran out of its budget is repeated with a far larger budget and then with strong damping.
    The properties that compare two executions (C06, C07, C17) speak about results: an execution that needs more
    iterations - Newton's path in an ill-conditioned net depends on round-off - but arrives at the same results is no
    violation; one that cannot be brought to converge is."""
    base = {k_: v_ for k_, v_ in kw.items() if k_ not in ("iter", "max_iter_hyd", "max_iter_therm", "max_iter_bidirect", "alpha",
                                                          "nonlinear_method", "reuse_internal_data")}
    for extra in ({"iter": 600}, {"iter": 1500, "alpha": 0.3, "nonlinear_method": "constant"}):
        k = dict(base)
        k.update(extra)
        try:
            pp.pipeflow(net, **k)
            return True
        except PipeflowNotConverged:
            continue
        except Exception:
            return False
    return False


def _ill_posed(results_by_tag):
    """A pump / compressor without flow sits on the discontinuity of its characteristic (shut-off head vs. no
    lift for reverse flow): the sign of a round-off flow decides pressures downstream."""
    for tag, row in results_by_tag.items():
        if tag.split("#")[0] in ("pump", "compressor"):
            m = row.get("mdot_from_kg_per_s")
            if m is not None and np.isfinite(m) and abs(m) < netmodel.ZERO_FLOW_ABS:
                return True
    return False


def _flowless_tags(net):
    fl = netmodel.flowless_junctions(net)
    if "junction" not in net or "vtag" not in net.junction:
        return set()
    return {net.junction.at[j, "vtag"] for j in fl if j in net.junction.index}


def _results_by_tag(net):
    out = {}
    for t in netmodel.result_tables(net):
        el = t[4:]
        if el not in net or "vtag" not in net[el] or not len(net[el]):
            continue
        df = net[t]
        for i in df.index:
            if i in net[el].index:
                out[net[el].at[i, "vtag"]] = df.loc[i].to_dict()
    return out


def _cmp_results(a, b, only=None, skip_t=()):
    diffs = []
    # Averaged per-element results come from grouped sums implemented as cumsum differences over the
    # whole table: their absolute error scales with the largest magnitude in the column (a flowless
    # pipe has lambda = 64/Re ~ 1e7), not with the element's own value.  Noise floor: 1e-12 * column max.
    colmax = {}
    for src in (a, b):
        for tag, row in src.items():
            t = tag.split("#")[0]
            for c, v in row.items():
                if isinstance(v, float) and np.isfinite(v):
                    colmax[(t, c)] = max(colmax.get((t, c), 0.0), abs(v))
    for tag in sorted(set(a) & set(b)):
        if only is not None and tag not in only:
            continue
        ra, rb = a[tag], b[tag]
        zero = abs(ra.get("mdot_from_kg_per_s", 1.0) or 0.0) < netmodel.ZERO_FLOW_ABS or abs(rb.get("mdot_from_kg_per_s", 1.0) or 0.0) < netmodel.ZERO_FLOW_ABS
        for c in sorted(set(ra) & set(rb)):
            x, y = ra[c], rb[c]
            if c in netmodel.ZERO_FLOW_SENSITIVE and zero:
                continue
            if c == "t_k" and tag in skip_t:
                continue   # junction inside a flowless loop: temperature decided by a round-off flow
            if isinstance(x, float) and isinstance(y, float):
                if np.isnan(x) and np.isnan(y):
                    continue
                atol = max(netmodel._atol_for(c, 1e-7), 1e-12 * colmax.get((tag.split("#")[0], c), 0.0))
                mm = min(abs(ra.get("mdot_from_kg_per_s") or 0.0), abs(rb.get("mdot_from_kg_per_s") or 0.0)) if "mdot_from_kg_per_s" in ra else 1.0
                rt = netmodel.flow_rtol(c, mm if np.isfinite(mm) else 1.0, 1e-7)
                if np.isnan(x) != np.isnan(y) or not (abs(x - y) <= atol + rt * abs(y)):
                    diffs.append("%s.%s" % (tag.split("#")[0], c))
    return sorted(set(diffs))


def _exec_c17(trace, res):
    meta = trace["meta"]
    net = netmodel.build(trace["program"])
    _tag(net)
    if trace.get("user_opts"):
        pp.set_user_pf_options(net, **trace["user_opts"])
    res.sig_parts.append(meta["family"])
    res.nontrivial = True
    state = _identity_state(net)
    base_out = _solve(net, meta)
    base_res = _results_by_tag(net) if base_out == "ok" else None
    for oi, op in enumerate(trace["ops"]):
        rng = random.Random(op["r"])
        kind = op["op"]
        carried = _results_by_tag(net) if base_out == "ok" else None    # result rows as they are before the operation
        J = sorted(net.junction.index.tolist())
        P = sorted(net.pipe.index.tolist()) if "pipe" in net else []
        if len(J) < 2:
            break
        expect_removed = None     # set of tags expected to disappear (None = none)
        relabel_only = False
        sub = None
        try:
            if kind == "reindex_junctions":
                new = _new_labels(rng, J)
                tb.reindex_junctions(net, dict(zip(J, new)))
                relabel_only = True
            elif kind == "reindex_pipes":
                if not P:
                    continue
                new = _new_labels(rng, P, avoid_overlap_with=None)
                tb.reindex_pipes(net, dict(zip(P, new)))
                relabel_only = True
            elif kind == "reindex_elements":
                cands = [t for t in ("sink", "valve", "source", "ext_grid", "heat_consumer", "pump") if t in net and len(net[t])]
                if not cands:
                    continue
                t = rng.choice(cands)
                idx = sorted(net[t].index.tolist())
                tb.reindex_elements(net, t, dict(zip(idx, _new_labels(rng, idx))))
                relabel_only = True
            elif kind == "continuous_junction":
                tb.create_continuous_junction_index(net, start=rng.choice([0, 5]))
                relabel_only = True
            elif kind == "continuous_elements":
                tb.create_continuous_elements_index(net, start=rng.choice([0, 3]))
                relabel_only = True
            elif kind == "drop_junctions":
                drop = rng.sample(J[1:], min(len(J) - 1, rng.randint(1, 2)))
                expect_removed = _attached(net, drop) | {net.junction.at[j, "vtag"] for j in drop}
                tb.drop_junctions(net, drop)
            elif kind == "drop_pipes":
                if not P:
                    continue
                drop = rng.sample(P, min(len(P), rng.randint(1, 2)))
                expect_removed = {net.pipe.at[p, "vtag"] for p in drop}
                expect_removed |= {net.valve.at[v, "vtag"] for v in (net.valve.index if "valve" in net else [])
                                   if net.valve.at[v, "et"] == "pi" and net.valve.at[v, "element"] in drop}
                tb.drop_pipes(net, drop)
            elif kind == "drop_elements_at_junctions":
                drop = rng.sample(J[1:], 1)
                ne, be = rng.choice([(True, True), (True, True), (True, False), (False, True)])
                if "press_control" in net and len(net.press_control) and rng.random() < 0.5:
                    # the junction a pressure controller watches, node elements only: the controller is a branch element
                    cj = [int(x) for x in net.press_control.controlled_junction.values if int(x) in J[1:]]
                    if cj:
                        drop = [rng.choice(cj)]
                        ne, be = rng.choice([(True, False), (True, False), (False, True)])
                expect_removed = _attached(net, drop, node_elements=ne, branch_elements=be)
                if (ne, be) == (True, True) and rng.random() < 0.5:
                    tb.drop_elements_at_junctions(net, drop)
                else:
                    tb.drop_elements_at_junctions(net, drop, node_elements=ne, branch_elements=be)
                res.count("cell:c17:drop_elements:%s%s" % ("n" if ne else "-", "b" if be else "-"))
            elif kind == "extend_then_drop":
                # the net grows after the last calculation (result tables have no rows for the new elements), then
                # the new junction is dropped again: everything attached to it goes, nothing else
                a = rng.choice(J)
                nj = max(J) + rng.choice([1, 3])
                pp.create_junction(net, pn_bar=float(net.junction.pn_bar.iloc[0]), tfluid_k=float(net.junction.tfluid_k.iloc[0]), index=nj)
                npi = (max(P) + 1) if P else 0
                pp.create_pipe_from_parameters(net, a, nj, 0.3, 100.0, index=npi)
                si = (int(net.sink.index.max()) + 1) if "sink" in net and len(net.sink) else 0
                pp.create_sink(net, nj, 1e-4, index=si)
                net.junction.at[nj, "vtag"] = "junction#x%d" % oi
                net.pipe.at[npi, "vtag"] = "pipe#x%d" % oi
                net.sink.at[si, "vtag"] = "sink#x%d" % oi
                state = _identity_state(net)
                expect_removed = {"junction#x%d" % oi, "pipe#x%d" % oi, "sink#x%d" % oi}
                tb.drop_junctions(net, [nj])
            elif kind == "fuse_junctions":
                a, b = rng.sample(J, 2)
                expect_removed = {net.junction.at[b, "vtag"]}
                jt = {net.junction.at[b, "vtag"]: net.junction.at[a, "vtag"]}
                tb.fuse_junctions(net, a, rng.choice([[b], [b], [a, b], b]))
                # model: every reference to b now points to a
                state = {tag: row for tag, row in state.items()}
                state = _apply_fuse_to_state(state, jt)
            elif kind == "select_subnet":
                whole = rng.random() < 0.35
                sub_j = list(J) if whole else rng.sample(J, rng.choice([2, 2, rng.randint(1, len(J))]) if len(J) >= 2 else 1)
                if whole:
                    rng.shuffle(sub_j)
                sub_with_results = op.get("with_results") or rng.random() < 0.7
                sub_kw = {}
                if rng.random() < 0.3:
                    sub_kw["keep_everything_else"] = True
                if rng.random() < 0.3:
                    sub_kw["remove_unused_components"] = True
                sub = tb.select_subnet(net, sub_j, include_results=sub_with_results, **sub_kw)
                res.count("cell:c17:select:%s%s%s" % ("w" if whole else "p", "k" if sub_kw.get("keep_everything_else") else "-",
                                                      "r" if sub_kw.get("remove_unused_components") else "-"))
            elif kind == "calc":
                pass
        except Exception as e:
            res.violate("C17", "C17/raised:%s:%s" % (kind, type(e).__name__), repr(e)[:200], oi)
            res.log.add("op", oi, kind, "raised", type(e).__name__)
            return
        res.calcs += 1
        res.log.add("op", oi, kind)
        res.sig_parts.append(kind[:10])
        res.count("cell:c17:%s" % kind)
        target = sub if sub is not None else net
        # ---- referential integrity ----------------------------------------------------------------
        for b in check_integrity(target):
            res.violate("C17", "C17/dangling:%s@%s" % (b, kind), "", oi)
        res.oracle_checks += 1
        if sub is not None:
            # selecting must not alter the source net, and the subnet's rows are unchanged copies
            now = _identity_state(net)
            for tag in sorted(set(state) | set(now)):
                if state.get(tag) != now.get(tag):
                    res.violate("C17", "C17/source-net-changed:%s@select_subnet" % tag.split("#")[0], tag, oi)
                    break
            if sub_with_results and base_res is not None:
                # result rows handed over must be those of the same elements
                sr = _results_by_tag(sub)
                src = _results_by_tag(net)
                for tag in sorted(sr):
                    if tag in src and snap.canon_deep(sr[tag]) != snap.canon_deep(src[tag]):
                        res.violate("C17", "C17/subnet-results-of-other-element:%s@select_subnet" % tag.split("#")[0], tag, oi)
                        break
                for t_ in netmodel.result_tables(sub):
                    el = t_[4:]
                    if el in sub and len(sub[t_]) and sorted(sub[t_].index) != sorted(sub[el].index.intersection(sub[t_].index)):
                        res.violate("C17", "C17/subnet-results-without-element:%s@select_subnet" % el, "", oi)
                res.count("probe:subnet-results-compared")
            ss = _identity_state(sub)
            for tag, row in ss.items():
                if tag in state and state[tag] != row and "MISSING" not in row:
                    res.violate("C17", "C17/untouched-changed:%s@select_subnet" % tag.split("#")[0], tag, oi)
                    break
            if set(sub_j) == set(J):
                # a complete supplied region (here: everything): every element must be there ...
                for tag in sorted(set(state) - set(ss)):
                    res.violate("C17", "C17/complete-region-lost-element:%s@select_subnet" % tag.split("#")[0], tag, oi)
                    break
                # ... and a calculation on the subnet reproduces the region's results
                if base_res is not None and not _ill_posed(base_res):
                    sub_calc = copy.deepcopy(sub)
                    out = _solve(sub_calc, meta)
                    if out == "nc" and _almost_converged(sub_calc):
                        res.count("probe:slow-convergence-verdict-skipped")
                    elif out != "ok":
                        res.violate("C17", "C17/complete-region-subnet-does-not-solve:%s" % out, "", oi)
                    else:
                        d = _cmp_results(base_res, _results_by_tag(sub_calc), skip_t=_flowless_tags(sub_calc))
                        if d:
                            res.violate("C17", "C17/subnet-does-not-reproduce-region:%s" % d[0], ",".join(d)[:300], oi)
                        res.count("probe:complete-region-recalculated")
            if (op["r"] % 10 < 3 or "pipe" not in sub) and len(sub.junction) >= 2:
                # the history goes on with the subnet
                net = sub
                state = _identity_state(net)
                base_out = _solve(net, meta)
                base_res = _results_by_tag(net) if base_out == "ok" else None
                res.count("probe:history-continued-on-subnet")
            continue
        # ---- untouched elements unchanged (identity view) -----------------------------------------------
        now = _identity_state(net)
        removed = set(state) - set(now)
        if expect_removed is None:
            expect_removed = set()
        for tag in sorted(removed - expect_removed):
            res.violate("C17", "C17/unrequested-removal:%s@%s" % (tag.split("#")[0], kind), tag, oi)
            break
        for tag in sorted((expect_removed & set(now))):
            res.violate("C17", "C17/not-removed:%s@%s" % (tag.split("#")[0], kind), tag, oi)
            break
        for tag in sorted(set(now) & set(state)):
            if now[tag] != state[tag]:
                res.violate("C17", "C17/untouched-changed:%s@%s" % (tag.split("#")[0], kind), "%s: %s -> %s" % (tag, state[tag][:120], now[tag][:120]), oi)
                break
        state = now
        # ---- a relabelling carries the existing result rows along with their elements ---------------------
        if relabel_only and carried is not None:
            now_r = _results_by_tag(net)
            for tag in sorted(set(carried) & set(now_r)):
                if snap.canon_deep(carried[tag]) != snap.canon_deep(now_r[tag]):
                    res.violate("C17", "C17/result-rows-moved-to-other-element:%s@%s" % (tag.split("#")[0], kind), tag, oi)
                    break
            for tag in sorted(set(carried) - set(now_r)):
                res.violate("C17", "C17/result-rows-lost:%s@%s" % (tag.split("#")[0], kind), tag, oi)
                break
            res.count("probe:carried-results-compared")
        # ---- physics: relabelling leaves results unchanged ---------------------------------------------
        if relabel_only and base_res is not None and not op.get("no_resolve") and (rng.random() < 0.5 or op.get("resolve")):
            # (only every other time: a later operation must also cope with result tables that were
            # relabelled but not recalculated)
            out = _solve(net, meta)
            if out == "nc" and _retry_with_patience(net, dict(TIGHT, mode=_mode_of(meta), use_numba=False)):
                res.count("probe:converged-with-larger-budget")
                out = "ok"
            if out == "nc" and _almost_converged(net):
                res.count("probe:slow-convergence-verdict-skipped")
            elif out != "ok":
                res.violate("C17", "C17/relabelled-net-does-not-solve:%s@%s" % (out, kind), "", oi)
            elif _ill_posed(base_res):
                res.count("probe:ill-posed-flowless-pump")
            else:
                d = _cmp_results(base_res, _results_by_tag(net), skip_t=_flowless_tags(net))
                if d:
                    res.violate("C17", "C17/results-changed-by-relabelling:%s@%s" % (d[0], kind), ",".join(d)[:300], oi)
                res.count("probe:relabel-results-compared")
        elif not relabel_only:
            base_out = _solve(net, meta)
            base_res = _results_by_tag(net) if base_out == "ok" else None
    # hash-seed independent final digest (the parent compares it across hash seeds via the run signature)
    fin = _identity_state(net)
    import hashlib
    res.sig_parts.append("final:" + hashlib.sha256(snap.canon_deep(fin).encode()).hexdigest()[:12])
    res.log.add("final", hashlib.sha256(snap.canon_deep(fin).encode()).hexdigest())
    if not any(v.sig.startswith("C17/raised") for v in res.violations):
        res.final_state = hashlib.sha256(snap.canon_deep(fin).encode()).hexdigest()


def _apply_fuse_to_state(state, jt):
    out = {}
    for tag, row in state.items():
        for old, new in jt.items():
            row = row.replace("s" + repr(old), "s" + repr(new))
        out[tag] = row
    return out


def _node_element_tables(net):
    from pandapipes.component_models.abstract_models.node_element_models import NodeElementComponent
    return {c.table_name() for c in net.component_list if issubclass(c, NodeElementComponent)}


def _attached(net, junctions, node_elements=True, branch_elements=True):
    tags = set()
    js = set(junctions)
    dropped_pipes = set()
    node_tabs = _node_element_tables(net)
    for t, cols in REF_COLS.items():
        if t not in net or not len(net[t]) or "vtag" not in net[t]:
            continue
        if (t in node_tabs and not node_elements) or (t not in node_tabs and not branch_elements):
            continue
        for i in net[t].index:
            hit = any(net[t].at[i, c] in js for c in cols if c in net[t])
            if t == "valve" and net[t].at[i, "et"] == "ju" and net[t].at[i, "element"] in js:
                hit = True
            if hit:
                tags.add(net[t].at[i, "vtag"])
                if t == "pipe":
                    dropped_pipes.add(i)
    if "valve" in net and len(net.valve):
        for i in net.valve.index:
            if net.valve.at[i, "et"] == "pi" and net.valve.at[i, "element"] in dropped_pipes:
                tags.add(net.valve.at[i, "vtag"])
    return tags


def _new_labels(rng, old, avoid_overlap_with=None):
    how = rng.choice(["shift", "shuffle", "big", "sparse"])
    n = len(old)
    if how == "shift":
        off = rng.choice([1, 7, 100])
        return [o + off for o in old]
    if how == "shuffle":
        new = list(old)
        rng.shuffle(new)
        return new
    if how == "big":
        base = rng.choice([100000, 150001])
        return [base + 2 * i for i in range(n)]
    new = sorted(rng.sample(range(0, 10 * n + 10), n))
    rng.shuffle(new)
    return new


# ==========================================================================================
# C06
# ==========================================================================================
def _gen_c06(rng, seed, tier):
    fam = rng.choice(["gas", "water", "heat"])
    program, meta = netgen.gen_program(rng, family=fam, max_junctions=rng.choice([4, 6, 8, 10]), sorted_labels=True)
    variants = []
    for _ in range(3):
        variants.append({"order_seed": rng.randrange(1 << 30), "explicit_index": rng.random() < 0.5,
                         "relabel": rng.choice([None, "shift", "shuffle", "big", "sparse"]),
                         "permute_rows": rng.random() < 0.5, "drop_recreate": rng.random() < 0.3,
                         "use_numba": rng.random() < 0.5, "resolve_after_permutation": rng.random() < 0.35})
    return {"engine": ENGINE, "prop": "C06", "seed": seed, "tier": tier, "program": program, "meta": meta,
            "ops": variants}


def _deps_ok(op, have_j, have_p):
    kw = op["kw"]
    for k, v in kw.items():
        if "junction" in k and k != "nr_junctions":
            if v not in have_j:
                return False
    if op["fn"] == "create_valve":
        if kw["et"] == "pi" and kw["element"] not in have_p:
            return False
        if kw["et"] == "ju" and kw["element"] not in have_j:
            return False
    return True


def _linear_extension(ops, rng):
    """A random schedule of the create ops that respects junction / pipe dependencies."""
    remaining = list(range(len(ops)))
    have_j, have_p = set(), set()
    order = []
    while remaining:
        ready = [i for i in remaining if _deps_ok(ops[i], have_j, have_p)]
        if not ready:
            raise ValueError("cyclic dependencies in program")
        i = rng.choice(ready)
        remaining.remove(i)
        order.append(i)
        t = netmodel.TABLE_OF[ops[i]["fn"]]
        if t == "junction":
            have_j.add(ops[i]["kw"]["index"])
        elif t == "pipe":
            have_p.add(ops[i]["kw"]["index"])
    return order


def _build_variant(program, var):
    """Build the same physical network under another construction schedule / labelling."""
    rng = random.Random(var["order_seed"])
    ops = program["ops"]
    order = _linear_extension(ops, rng)
    net = pp.create_empty_network(fluid=program["fluid"])
    jmap, pmap = {}, {}
    # optional relabelling of junctions (and pipes) - an injective map
    J = [o["kw"]["index"] for o in ops if o["fn"] == "create_junction"]
    if var["relabel"]:
        newJ = _new_labels(rng, J)
    else:
        newJ = list(J)
    want_j = dict(zip(J, newJ))
    tags = {}
    for i in order:
        op = ops[i]
        kw = dict(op["kw"])
        t = netmodel.TABLE_OF[op["fn"]]
        for k in list(kw):
            if "junction" in k:
                kw[k] = jmap[kw[k]]
        if op["fn"] == "create_valve":
            kw["element"] = (pmap if kw["et"] == "pi" else jmap)[kw["element"]]
        old_idx = kw.pop("index")
        if t == "junction":
            if var["explicit_index"] or var["relabel"]:
                kw["index"] = want_j[old_idx]
        elif var["explicit_index"]:
            kw["index"] = old_idx
        kw["vtag"] = "%s#%d" % (t, old_idx)
        if op["fn"] == "create_pressure_control":
            kw["check_controllability"] = False   # (needs an already connected graph: creation-order dependent by design)
        new_idx = getattr(pp, op["fn"])(net, **kw)
        if t == "junction":
            jmap[old_idx] = new_idx
        elif t == "pipe":
            pmap[old_idx] = new_idx
    if var["drop_recreate"]:
        # drop one sink and create it again (produces an index gap / a re-used label at the end)
        if "sink" in net and len(net.sink):
            i = net.sink.index[0]
            row = net.sink.loc[i].to_dict()
            net.sink.drop(i, inplace=True)
            pp.create_sink(net, int(row["junction"]), row["mdot_kg_per_s"], scaling=row["scaling"], in_service=bool(row["in_service"]),
                           vtag=row["vtag"])
    if var["permute_rows"]:
        for t in ("junction", "pipe", "sink", "valve", "heat_consumer"):
            if t in net and len(net[t]) > 1:
                perm = list(net[t].index)
                rng.shuffle(perm)
                net[t] = net[t].loc[perm]
    return net


def _exec_c06(trace, res):
    program, meta = trace["program"], trace["meta"]
    res.nontrivial = True
    res.sig_parts.append(meta["family"])
    ref = netmodel.build(program)
    for t in sorted(k for k in ref.keys() if isinstance(k, str) and isinstance(ref[k], pd.DataFrame) and not k.startswith("_") and not k.startswith("res_")):
        if len(ref[t]) and "geodata" not in t:
            ref[t]["vtag"] = ["%s#%d" % (t, i) for i in ref[t].index]
    mode = "sequential" if meta.get("thermal") and not meta.get("needs_bidirectional") else ("bidirectional" if meta.get("needs_bidirectional") else "hydraulics")
    refs = {}
    ref_nets = {}

    def reference(use_numba):
        # the reference uses the same engine as the variant: engine dependence is C07's subject
        if use_numba not in refs:
            r_ = copy.deepcopy(ref)
            try:
                pp.pipeflow(r_, mode=mode, use_numba=use_numba, **TIGHT)
                refs[use_numba] = ("ok", _results_by_tag(r_))
            except PipeflowNotConverged:
                refs[use_numba] = ("nc", None)
                ref_nets[use_numba] = r_
            except Exception as e:
                refs[use_numba] = ("exc:%s" % type(e).__name__, None)
            res.calcs += 1
        return refs[use_numba]
    for vi, var in enumerate(trace["ops"]):
        try:
            net = _build_variant(program, var)
        except ValueError:
            continue
        except Exception as e:
            res.violate("C06", "C06/variant-construction-raised:%s" % type(e).__name__, repr(e)[:200], vi)
            continue
        try:
            pp.pipeflow(net, mode=mode, use_numba=var["use_numba"], **TIGHT)
            out = "ok"
        except PipeflowNotConverged:
            out = "nc"
        except Exception as e:
            out = "exc:%s" % type(e).__name__
        res.calcs += 1
        label = "%s%s%s%s" % ("I" if var["explicit_index"] else "i", (var["relabel"] or "-")[:3], "P" if var["permute_rows"] else "p",
                              "D" if var["drop_recreate"] else "d")
        res.sig_parts.append(label + ":" + out[:3])
        res.count("cell:c06:%s" % label)
        ref_out, ref_res = reference(var["use_numba"])
        if ref_out.startswith("exc") and out.startswith("exc"):
            res.count("probe:foreign-exception-both")
            continue
        if ref_out != out:
            if {ref_out, out} == {"ok", "nc"} and _almost_converged(net if out == "nc" else ref_nets.get(var["use_numba"], {})):
                # (the side that ran out of budget was creeping towards the solution at the round-off floor)
                res.count("probe:slow-convergence-verdict-skipped")
                continue
            patient_kw = dict(TIGHT, mode=mode, use_numba=var["use_numba"])
            if ref_out == "ok" and out == "nc" and _retry_with_patience(net, patient_kw):
                res.count("probe:converged-with-larger-budget")
                out = "ok"     # ... and its results are compared below
            elif ref_out == "nc" and out == "ok" and var["use_numba"] in ref_nets and _retry_with_patience(ref_nets[var["use_numba"]], patient_kw):
                res.count("probe:converged-with-larger-budget")
                refs[var["use_numba"]] = ("ok", _results_by_tag(ref_nets[var["use_numba"]]))
                ref_out, ref_res = refs[var["use_numba"]]
            else:
                res.violate("C06", "C06/verdict-differs:%s-vs-%s" % (ref_out, out), label, vi)
                continue
        if ref_res is None:
            continue
        if _ill_posed(ref_res):
            res.count("probe:ill-posed-flowless-pump")
            continue
        if var.get("resolve_after_permutation"):
            # history on ONE net object: solved, rows permuted in place (same lengths), solved again
            prng = random.Random(var["order_seed"] + 1)
            for t in ("junction", "pipe", "sink", "valve", "heat_consumer", "ext_grid"):
                if t in net and len(net[t]) > 1:
                    perm = list(net[t].index)
                    prng.shuffle(perm)
                    net[t] = net[t].loc[perm]
            try:
                pp.pipeflow(net, mode=mode, use_numba=var["use_numba"], **TIGHT)
            except PipeflowNotConverged as e:
                if _retry_with_patience(net, dict(TIGHT, mode=mode, use_numba=var["use_numba"])):
                    res.count("probe:converged-with-larger-budget")
                else:
                    res.violate("C06", "C06/verdict-differs:ok-vs-%s@resolve-after-permutation" % type(e).__name__, label, vi)
                    continue
            except Exception as e:
                res.violate("C06", "C06/verdict-differs:ok-vs-%s@resolve-after-permutation" % type(e).__name__, label, vi)
                continue
            res.count("probe:resolved-after-inplace-permutation")
            label += "R"
        d = _cmp_results(ref_res, _results_by_tag(net), skip_t=_flowless_tags(net) | _flowless_tags(ref))
        missing = set(ref_res) ^ set(_results_by_tag(net))
        if missing:
            res.violate("C06", "C06/elements-missing-in-results", ",".join(sorted(missing))[:200], vi)
        if d:
            kind = "relabel" if var["relabel"] else ("rows" if var["permute_rows"] else "order")
            res.violate("C06", "C06/results-differ:%s@%s" % (d[0], kind), ",".join(d)[:300] + " " + label, vi)
        res.oracle_checks += 1
        if var["relabel"] == "big":
            res.count("probe:label>1e5")
