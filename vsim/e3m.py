"""Engine E3m - multi-energy worlds: a MultiNet with 2-3 member nets (gas, power, optionally a second
gas net with another fluid), 1-4 coupling controllers (P2G, G2P in both directions, GasToGas) with
scalar / vector element indices, non-unit scalings and efficiencies, seeded order / level /
initial_run, optional ConstControl profiles in member nets; driven by run_control (one or two
consecutive runs with a simulator edit in between) or by a 3-6 step time series with
continue_on_divergence on/off.  Faults: a member calculation diverges at a chosen step (infeasible
gas demand, diverging power flow) or through a NaN at the solver seam.

Oracles:
 * coupling algebra (reference model in plain Python floats, controllers applied level by level in
   ascending order on the model state): every written target value == model value (1e-12 rel.)
 * round trip: power -> gas (P2G) in run 1, that mass flow fed to a gas->power unit in run 2:
   p' == eta1 * eta2 * p
 * every member net's result tables == stand-alone twin calculation carrying the model's values
   (pandapipes nets bit for bit; pandapower nets to 1e-9 - runpp warm-starts from previous results)
 * reported convergence == conjunction of the affected twins' convergence; with
   continue_on_divergence a diverged step must be flagged and later steps be strict again (C13)
 * schedule search: a replica world with the `order` of independent couplings permuted (and ties
   introduced) must end in the same state
"""
import copy
import random

import numpy as np
import pandas as pd

import pandapipes as pp
import pandapower as ppw
from pandapipes.multinet.create_multinet import create_empty_multinet, add_net_to_multinet
from pandapipes.multinet.control.controller.multinet_control import (
    coupled_p2g_const_control, coupled_g2p_const_control,
    P2GControlMultiEnergy, G2PControlMultiEnergy, GasToGasConversion)
from pandapipes.multinet.control.run_control_multinet import run_control as run_control_mn
from pandapipes.multinet.timeseries.run_time_series_multinet import run_timeseries as run_timeseries_mn
from pandapipes.pf.pipeflow_setup import PipeflowNotConverged
from pandapower.auxiliary import NetCalculationNotConverged
from pandapower.control import ConstControl
from pandapower.powerflow import LoadflowNotConverged
from pandapower.timeseries import OutputWriter

from . import netgen, netmodel, seams
from .core import RunResult
from .e3 import SimData, SIMCLOCK, _CalcCounter

ENGINE = "e3m"
SHRINK_LISTS = [("couplings",), ("const",), ("run", "time_steps"), ("faults",), ("nets", "gas", "ops"),
                ("nets", "gas2", "ops")]
REAL = ["pandapipes.multinet (MultiNet, coupling controllers, run_control_multinet, run_time_series_multinet) (real)",
        "pandapower control loop, ConstControl, DFData, OutputWriter, runpp (real, not under test)",
        "pandapipes.pipeflow and everything below it (real)"]
STUB = ["disk (none: OutputWriters keep results in memory)", "wall clock (virtual)"]
CONV_ERRORS = (PipeflowNotConverged, LoadflowNotConverged, NetCalculationNotConverged)


# ==========================================================================================
# generation
# ==========================================================================================
def _gen_power(rng):
    nb = rng.randint(2, 4)
    lines = [(rng.randrange(0, i), i, round(rng.uniform(0.2, 2.0), 2)) for i in range(1, nb)]
    loads, sgens = [], []
    for k in range(rng.randint(1, 3)):
        loads.append({"bus": rng.randrange(1, nb), "p_mw": round(rng.uniform(0.05, 0.8), 4),
                      "q_mvar": round(rng.uniform(0.0, 0.1), 4), "scaling": rng.choice([1.0, 1.0, 0.5, 1.5]),
                      "index": k * rng.choice([1, 2]) + rng.choice([0, 3])})
    seen = set()
    loads = [l for l in loads if not (l["index"] in seen or seen.add(l["index"]))]
    for k in range(rng.randint(1, 3)):
        sgens.append({"bus": rng.randrange(1, nb), "p_mw": round(rng.uniform(0.01, 0.4), 4), "q_mvar": 0.0,
                      "scaling": rng.choice([1.0, 1.0, 2.0]), "index": k + rng.choice([0, 0, 5])})
    seen = set()
    sgens = [s for s in sgens if not (s["index"] in seen or seen.add(s["index"]))]
    gens = []
    if rng.random() < 0.5:
        for k in range(rng.randint(1, 2)):
            gens.append({"bus": rng.randrange(1, nb), "p_mw": round(rng.uniform(0.01, 0.3), 4), "vm_pu": 1.0,
                         "scaling": rng.choice([1.0, 1.0, 2.0]), "index": k + rng.choice([0, 0, 5])})
        seen = set()
        gens = [g for g in gens if not (g["index"] in seen or seen.add(g["index"]))]
        # one voltage-controlled generator per bus at most
        seenb = set()
        gens = [g for g in gens if not (g["bus"] in seenb or seenb.add(g["bus"]))]
    return {"buses": nb, "lines": lines, "loads": loads, "sgens": sgens, "gens": gens}


def build_power(prog):
    net = ppw.create_empty_network()
    for b in range(prog["buses"]):
        ppw.create_bus(net, vn_kv=20.0, index=b)
    ppw.create_ext_grid(net, 0, vm_pu=1.02)
    for (a, b, ln) in prog["lines"]:
        ppw.create_line(net, a, b, length_km=ln, std_type="NA2XS2Y 1x95 RM/25 12/20 kV")
    for l in prog["loads"]:
        ppw.create_load(net, l["bus"], p_mw=l["p_mw"], q_mvar=l["q_mvar"], scaling=l["scaling"], index=l["index"])
    for s in prog["sgens"]:
        ppw.create_sgen(net, s["bus"], p_mw=s["p_mw"], q_mvar=s["q_mvar"], scaling=s["scaling"], index=s["index"])
    for g in prog.get("gens", []):
        ppw.create_gen(net, g["bus"], p_mw=g["p_mw"], vm_pu=g["vm_pu"], scaling=g["scaling"], index=g["index"])
    return net


def _gen_gas(rng, fluid=None):
    prog, meta = netgen.gen_program(rng, family="gas", max_junctions=rng.choice([3, 4, 6]), sorted_labels=True,
                                    thermal=False, kinds=rng.sample(["valve", "heights", "sections", "pipe_std", "second_feeder"], rng.randint(0, 3)))
    if fluid:
        prog["fluid"] = fluid
    js = meta["junctions"]
    used_src = {o["kw"]["index"] for o in prog["ops"] if o["fn"] == "create_source"}
    used_snk = {o["kw"]["index"] for o in prog["ops"] if o["fn"] == "create_sink"}
    srcs, snks = [], []
    for k in range(rng.randint(2, 3)):
        idx = max(used_src | {-1}) + 1 + rng.choice([0, 0, 2])
        used_src.add(idx)
        prog["ops"].append({"fn": "create_source", "kw": {"junction": js[rng.randrange(1, len(js))],
                                                          "mdot_kg_per_s": round(rng.uniform(0.0002, 0.002), 6),
                                                          "scaling": rng.choice([1.0, 1.0, 0.5]), "index": idx}})
        srcs.append(idx)
    for k in range(rng.randint(2, 3)):
        idx = max(used_snk | {-1}) + 1 + rng.choice([0, 0, 2])
        used_snk.add(idx)
        prog["ops"].append({"fn": "create_sink", "kw": {"junction": js[rng.randrange(1, len(js))],
                                                        "mdot_kg_per_s": round(rng.uniform(0.0005, 0.004), 6),
                                                        "scaling": rng.choice([1.0, 1.0, 2.0]), "index": idx}})
        snks.append(idx)
    return prog, {"sources": srcs, "sinks": snks}


def generate(seed, tier, prop):
    rng = random.Random(seed)
    fault_free = rng.random() < 0.35
    power = _gen_power(rng)
    gas, gmeta = _gen_gas(rng, rng.choice(["hgas", "lgas", "methane", "hydrogen"]))
    nets = {"power": power, "gas": gas}
    g2meta = None
    if rng.random() < 0.4:
        gas2, g2meta = _gen_gas(rng, rng.choice(["hydrogen", "methane", "hgas"]))
        nets["gas2"] = gas2
    free = {"load": [l["index"] for l in power["loads"]], "sgen": [s["index"] for s in power["sgens"]],
            "gen": [g["index"] for g in power.get("gens", [])],
            "gas.source": list(gmeta["sources"]), "gas.sink": list(gmeta["sinks"])}
    if g2meta:
        free["gas2.source"] = list(g2meta["sources"])
        free["gas2.sink"] = list(g2meta["sinks"])

    def take(key, n):
        n = min(n, len(free[key]))
        out = [free[key].pop(rng.randrange(len(free[key]))) for _ in range(n)]
        return out
    couplings = []
    for _ in range(rng.randint(1, 4)):
        kinds = ["p2g", "g2p", "g2p_led"] + (["g2g"] if g2meta else [])
        kind = rng.choice(kinds)
        nvec = rng.choice([1, 1, 2])
        c = {"type": kind, "eff": round(rng.uniform(0.3, 0.95), 3), "order": rng.choice([0, 0, 1, 2]),
             "level": rng.choice([0, 0, 1, [0, 1]]), "initial_run": rng.random() < 0.5, "vector": nvec > 1 or rng.random() < 0.3}
        if kind == "p2g":
            gn = rng.choice(["gas"] + (["gas2"] if g2meta else []))
            a, b = take("load", nvec), take(gn + ".source", nvec)
            c.update(power_idx=a, gas_idx=b, gas_net=gn)
        elif kind in ("g2p", "g2p_led"):
            gn = rng.choice(["gas"] + (["gas2"] if g2meta else []))
            ptype = "gen" if (free["gen"] and rng.random() < 0.4) else "sgen"
            a, b = take(ptype, nvec), take(gn + ".sink", nvec)
            c.update(power_idx=a, gas_idx=b, gas_net=gn, ptype=ptype)
        else:
            frm, to = rng.choice([("gas", "gas2"), ("gas2", "gas")])
            a, b = take(frm + ".sink", nvec), take(to + ".source", nvec)
            c.update(idx_from=a, idx_to=b, from_net=frm, to_net=to)
        n = min(len(a), len(b))
        if n == 0:
            continue
        for key in ("power_idx", "gas_idx", "idx_from", "idx_to"):
            if key in c:
                c[key] = c[key][:n]
        couplings.append(c)
    # run ------------------------------------------------------------------------------------------
    T = rng.randint(3, 6)
    kind = rng.choice(["control", "control2", "timeseries", "timeseries", "control_recover"])
    if kind == "control_recover" and not any(c["type"] == "p2g" for c in couplings):
        kind = "control"
    per_net_cod = kind in ("control", "control2") and rng.random() < 0.4
    late = (kind == "control_recover") or (kind == "timeseries" and not fault_free and rng.random() < 0.5) or per_net_cod
    if late:
        # no initial runs: a member can then only diverge AFTER the coupling controllers have acted, so that
        # whatever they keep across runs / steps (flags, cached values) meets an aborted control loop
        for c in couplings:
            c["initial_run"] = False
    const, profiles = [], {}
    bad = []
    if kind == "timeseries":
        # profiles on elements that are coupling *sources* (or free elements)
        cands = [("power", "load", l["index"], "p_mw", l["p_mw"]) for l in power["loads"]]
        cands += [("gas", "sink", o["kw"]["index"], "mdot_kg_per_s", o["kw"]["mdot_kg_per_s"]) for o in gas["ops"] if o["fn"] == "create_sink"]
        written = set()
        for c in couplings:
            if c["type"] == "g2p_led":
                written |= {(c["gas_net"], "sink", i) for i in c["gas_idx"]}
        cands = [x for x in cands if (x[0], x[1], x[2]) not in written]
        for ci, (nn, el, idx, var, base) in enumerate(rng.sample(cands, min(len(cands), rng.randint(1, 2)))):
            nm = "q%d" % ci
            profiles[nm] = [round(base * rng.uniform(0.5, 1.5), 8) for _ in range(T)]
            const.append({"net": nn, "element": el, "variable": var, "element_index": [idx], "profile": [nm],
                          "scale_factor": 1.0, "order": -1, "level": rng.choice([-1, 0]), "initial_run": False})
            if not fault_free and rng.random() < (0.9 if late else 0.5):
                t_bad = rng.randrange(T - 1) if late else rng.randrange(T)
                profiles[nm][t_bad] = round(base * (1e4 if el == "sink" else 5e3), 6)
                bad.append(t_bad)
    if kind == "timeseries":
        # a coupling set up through the helper functions: profile controller on the coupling's source element(s)
        # plus the coupling controller, both in one level
        profiled = {(x["net"], x["element"], i) for x in const for i in x["element_index"]}
        for ci, c in enumerate(couplings):
            if c["type"] == "g2g" or not isinstance(c["level"], int) or rng.random() > 0.4:
                continue
            if c["type"] == "p2g":
                src = ("power", "load", "p_mw", c["power_idx"])
            elif c["type"] == "g2p":
                src = (c["gas_net"], "sink", "mdot_kg_per_s", c["gas_idx"])
            else:
                src = ("power", c.get("ptype", "sgen"), "p_mw", c["power_idx"])
            if any((src[0], src[1], i) in profiled for i in src[3]):
                continue
            # (a source element that another coupling writes would be overwritten by the profile: skip)
            targets = set()
            for c2 in couplings:
                if c2["type"] == "p2g":
                    targets |= {(c2["gas_net"], "source", i) for i in c2["gas_idx"]}
                elif c2["type"] == "g2p":
                    targets |= {("power", c2.get("ptype", "sgen"), i) for i in c2["power_idx"]}
                elif c2["type"] == "g2p_led":
                    targets |= {(c2["gas_net"], "sink", i) for i in c2["gas_idx"]}
                else:
                    targets |= {(c2["to_net"], "source", i) for i in c2["idx_to"]}
            if any((src[0], src[1], i) in targets for i in src[3]):
                continue
            names = []
            for i in src[3]:
                nm = "h%d_%d" % (ci, i)
                base = [o for o in ([{"index": l["index"], "v": l["p_mw"]} for l in power["loads"]] if src[1] == "load" else
                                    [{"index": g["index"], "v": g["p_mw"]} for g in power.get(src[1] + "s", [])] if src[0] == "power" else
                                    [{"index": o_["kw"]["index"], "v": o_["kw"]["mdot_kg_per_s"]} for o_ in nets[src[0]]["ops"] if o_["fn"] == "create_sink"])
                        if o["index"] == i]
                b0 = base[0]["v"] if base else 0.1
                profiles[nm] = [round(b0 * rng.uniform(0.5, 1.5), 8) for _ in range(T)]
                names.append(nm)
            c["helper"] = {"profile": names}
            const.append({"net": src[0], "element": src[1], "variable": src[2], "element_index": list(src[3]), "profile": names,
                          "scale_factor": 1.0, "order": c["order"] - 1, "level": c["level"], "initial_run": c["initial_run"],
                          "via_helper": ci})
            profiled |= {(src[0], src[1], i) for i in src[3]}
    steps = list(range(T))
    if kind == "timeseries" and rng.random() < 0.3:
        steps = sorted(rng.sample(steps, rng.randint(2, T)))
    faults = []
    if not fault_free and rng.random() < 0.3:
        faults.append({"run": 0, "calc": rng.randrange(0, 6), "stage": "hyd", "call": rng.choice([0, 1]),
                       "kind": "nan", "pos": rng.randrange(32)})
    run = {"kind": kind, "time_steps": steps, "cod": rng.random() < 0.6,
           "kw": {"iter": rng.choice([30, 60]), "use_numba": rng.random() < 0.5},
           # per-net continue_on_divergence handed in through ctrl_variables (control runs): a diverging member is
           # then swallowed by its own evaluation and only the combined convergence flag can report it
           "per_net_cod": per_net_cod,
           # the ctrl_variables dictionary of the first run is handed to a second run after the controller table changed
           "reuse_cv": kind in ("control", "control2") and not per_net_cod and rng.random() < 0.4}
    if kind in ("control", "control2") and not fault_free and rng.random() < 0.35:
        # infeasible member: a load the power net cannot serve / a demand the gas net cannot serve
        if rng.random() < 0.5 and power["loads"]:
            rng.choice(power["loads"])["p_mw"] = 4000.0
        else:
            # (not a sink that a power-led coupling overwrites: the initial run would see the infeasible
            # start value although the final state is feasible)
            written = {i for c in couplings if c["type"] == "g2p_led" and c["gas_net"] == "gas" for i in c["gas_idx"]}
            snk = [o for o in gas["ops"] if o["fn"] == "create_sink" and o["kw"]["index"] not in written]
            if snk:
                rng.choice(snk)["kw"]["mdot_kg_per_s"] = 60.0
    recover = None
    if kind == "control_recover":
        c0 = [c for c in couplings if c["type"] == "p2g"][0]
        li = c0["power_idx"][0]
        good = [l for l in power["loads"] if l["index"] == li][0]["p_mw"]
        recover = {"net": "power", "table": "load", "index": li, "col": "p_mw", "bad": 3000.0, "good": good}
    # member nets without a controller of their own always get an initial run (pandapower rule); a passive
    # ConstControl (no data source: it keeps the stored value) with initial_run=False switches that off
    passive = sorted(nets) if late else []
    return {"engine": ENGINE, "prop": prop, "seed": seed, "tier": tier, "nets": nets, "couplings": couplings, "recover": recover,
            "passive_const": passive,
            "const": const, "profiles": profiles, "n_steps": T, "run": run, "faults": faults,
            "permute": rng.random() < 0.5, "perm_seed": rng.randrange(1 << 30),
            "restart": (rng.choice(["json_str", "json_enc", "json_file", "pickle_fobj"]) if (prop == "C15" or rng.random() < 0.15) and kind in ("control", "control2") else None),
            "knobs": {"fault_free": fault_free, "bad_steps": bad}, "ops": []}


# ==========================================================================================
# model
# ==========================================================================================
def _hhv(fluid):
    import os
    path = os.path.join(pp.pp_dir, "properties", fluid, "higher_heating_value.txt")
    return float(np.ravel(np.loadtxt(path))[0])   # read from the library data, not through the controllers' code path


class Model:
    """Plain-float model of the values the couplings read and write."""

    def __init__(self, trace):
        self.v = {}  # (net, table, index, column) -> float
        pw = trace["nets"]["power"]
        for l in pw["loads"]:
            self.v[("power", "load", l["index"], "p_mw")] = l["p_mw"]
            self.v[("power", "load", l["index"], "scaling")] = l["scaling"]
        for s in pw["sgens"]:
            self.v[("power", "sgen", s["index"], "p_mw")] = s["p_mw"]
            self.v[("power", "sgen", s["index"], "scaling")] = s["scaling"]
        for g in pw.get("gens", []):
            self.v[("power", "gen", g["index"], "p_mw")] = g["p_mw"]
            self.v[("power", "gen", g["index"], "scaling")] = g["scaling"]
        for nn in ("gas", "gas2"):
            if nn not in trace["nets"]:
                continue
            for o in trace["nets"][nn]["ops"]:
                if o["fn"] in ("create_sink", "create_source"):
                    t = "sink" if o["fn"] == "create_sink" else "source"
                    self.v[(nn, t, o["kw"]["index"], "mdot_kg_per_s")] = o["kw"]["mdot_kg_per_s"]
                    self.v[(nn, t, o["kw"]["index"], "scaling")] = o["kw"].get("scaling", 1.0)
        self.hhv = {nn: _hhv(trace["nets"][nn]["fluid"]) for nn in ("gas", "gas2") if nn in trace["nets"]}
        self.written = []

    def apply_couplings(self, couplings, order_override=None):
        """One control run: level by level, ascending order, each controller acts once."""
        items = []
        for ci, c in enumerate(couplings):
            lv = c["level"] if isinstance(c["level"], list) else [c["level"]]
            od = c["order"] if order_override is None else order_override[ci]
            items.append((min(lv), od, ci, c))
        self.written = []
        for (_, _, ci, c) in sorted(items, key=lambda x: (x[0], x[1], x[2])):
            if c["type"] == "p2g":
                k = 1e3 / (self.hhv[c["gas_net"]] * 3600)
                for a, b in zip(c["power_idx"], c["gas_idx"]):
                    if ("power", "load", a, "p_mw") not in self.v or (c["gas_net"], "source", b, "mdot_kg_per_s") not in self.v:
                        continue
                    val = self.v[("power", "load", a, "p_mw")] * self.v[("power", "load", a, "scaling")] * k * c["eff"]
                    self.v[(c["gas_net"], "source", b, "mdot_kg_per_s")] = val
                    self.written.append((c["gas_net"], "source", b, "mdot_kg_per_s", ci))
            elif c["type"] == "g2p":
                k = self.hhv[c["gas_net"]] * 3600 / 1e3
                pt = c.get("ptype", "sgen")
                for a, b in zip(c["power_idx"], c["gas_idx"]):
                    if ("power", pt, a, "p_mw") not in self.v or (c["gas_net"], "sink", b, "mdot_kg_per_s") not in self.v:
                        continue
                    val = self.v[(c["gas_net"], "sink", b, "mdot_kg_per_s")] * self.v[(c["gas_net"], "sink", b, "scaling")] * k * c["eff"]
                    self.v[("power", pt, a, "p_mw")] = val
                    self.written.append(("power", pt, a, "p_mw", ci))
            elif c["type"] == "g2p_led":
                k = self.hhv[c["gas_net"]] * 3600 / 1e3
                pt = c.get("ptype", "sgen")
                for a, b in zip(c["power_idx"], c["gas_idx"]):
                    if ("power", pt, a, "p_mw") not in self.v or (c["gas_net"], "sink", b, "mdot_kg_per_s") not in self.v:
                        continue
                    val = self.v[("power", pt, a, "p_mw")] * self.v[("power", pt, a, "scaling")] / (k * c["eff"])
                    self.v[(c["gas_net"], "sink", b, "mdot_kg_per_s")] = val
                    self.written.append((c["gas_net"], "sink", b, "mdot_kg_per_s", ci))
            elif c["type"] == "g2g":
                k = self.hhv[c["from_net"]] / self.hhv[c["to_net"]]
                for a, b in zip(c["idx_from"], c["idx_to"]):
                    if (c["from_net"], "sink", a, "mdot_kg_per_s") not in self.v or (c["to_net"], "source", b, "mdot_kg_per_s") not in self.v:
                        continue
                    val = self.v[(c["from_net"], "sink", a, "mdot_kg_per_s")] * self.v[(c["from_net"], "sink", a, "scaling")] * k * c["eff"]
                    self.v[(c["to_net"], "source", b, "mdot_kg_per_s")] = val
                    self.written.append((c["to_net"], "source", b, "mdot_kg_per_s", ci))


# ==========================================================================================
# world
# ==========================================================================================
def _idx(c, key):
    v = c[key]
    return v if (c.get("vector") or len(v) > 1) else v[0]


def build_world(trace, order_override=None):
    mn = create_empty_multinet("sim")
    nets = {"power": build_power(trace["nets"]["power"])}
    for nn in ("gas", "gas2"):
        if nn in trace["nets"]:
            nets[nn] = netmodel.build(trace["nets"][nn])
    for nn in sorted(nets):
        add_net_to_multinet(mn, nets[nn], nn)
    T = trace["n_steps"]
    ds = None
    if trace["profiles"]:
        ds = SimData(pd.DataFrame({k: list(v)[:T] for k, v in sorted(trace["profiles"].items())}, index=list(range(T))))
    def _exists(nn, tbl, idxs):
        return nn in nets and tbl in nets[nn] and all(i in nets[nn][tbl].index for i in idxs)
    for ci, c in enumerate(trace["couplings"]):
        od = c["order"] if order_override is None else order_override[ci]
        common = dict(order=od, level=c["level"], initial_run=c["initial_run"])
        # (shrunk traces: a coupling whose elements were removed would make pandas' .at create rows with NaN
        # junctions, which the numba kernels index without bounds check -> skip it)
        if c["type"] == "p2g" and not (_exists("power", "load", c["power_idx"]) and _exists(c["gas_net"], "source", c["gas_idx"])):
            continue
        if c["type"] in ("g2p", "g2p_led") and not (_exists("power", c.get("ptype", "sgen"), c["power_idx"]) and _exists(c["gas_net"], "sink", c["gas_idx"])):
            continue
        if c["type"] == "g2g" and not (_exists(c["from_net"], "sink", c["idx_from"]) and _exists(c["to_net"], "source", c["idx_to"])):
            continue
        try:
            hp = c.get("helper")
            if hp and ds is not None and all(p_ in ds.df.columns for p_ in hp["profile"]) and isinstance(c["level"], int):
                # the pair (profile controller on the coupling's source, coupling controller) set up by the helper
                prof = hp["profile"] if (c.get("vector") or len(hp["profile"]) > 1) else hp["profile"][0]
                hkw = dict(profile_name=prof, data_source=ds, scale_factor=1.0, order=(od - 1, od), level=c["level"],
                           initial_run=c["initial_run"], name_power_net="power", name_gas_net=c["gas_net"])
                if c["type"] == "p2g":
                    coupled_p2g_const_control(mn, _idx(c, "power_idx"), _idx(c, "gas_idx"), c["eff"], **hkw)
                else:
                    coupled_g2p_const_control(mn, _idx(c, "power_idx"), _idx(c, "gas_idx"), c["eff"],
                                              element_type_power=c.get("ptype", "sgen"), power_led=c["type"] == "g2p_led", **hkw)
            elif c["type"] == "p2g":
                P2GControlMultiEnergy(mn, _idx(c, "power_idx"), _idx(c, "gas_idx"), c["eff"], name_power_net="power",
                                      name_gas_net=c["gas_net"], **common)
            elif c["type"] in ("g2p", "g2p_led"):
                G2PControlMultiEnergy(mn, _idx(c, "power_idx"), _idx(c, "gas_idx"), c["eff"], name_power_net="power",
                                      name_gas_net=c["gas_net"], element_type_power=c.get("ptype", "sgen"),
                                      calc_gas_from_power=c["type"] == "g2p_led", **common)
            else:
                GasToGasConversion(mn, _idx(c, "idx_from"), _idx(c, "idx_to"), c["eff"], name_gas_net_from=c["from_net"],
                                   name_gas_net_to=c["to_net"], **common)
        except KeyError:
            continue  # shrunk trace: a member net was removed
    for nn in trace.get("passive_const", []):
        if nn not in nets:
            continue
        n = nets[nn]
        el, var = ("load", "p_mw") if nn == "power" else ("sink", "mdot_kg_per_s")
        if el in n and len(n[el]):
            ConstControl(n, element=el, variable=var, element_index=[n[el].index[0]], data_source=None,
                         order=99, level=9, initial_run=False)   # after every coupling level
    for c in trace["const"]:
        if c["net"] not in nets or ds is None or c.get("via_helper") is not None:
            continue
        n = nets[c["net"]]
        if c["element"] not in n or any(i not in n[c["element"]].index for i in c["element_index"]):
            continue
        if any(p not in ds.df.columns for p in c["profile"]):
            continue
        ConstControl(n, element=c["element"], variable=c["variable"], element_index=c["element_index"],
                     profile_name=c["profile"], data_source=ds, scale_factor=c["scale_factor"], order=c["order"],
                     level=c["level"], initial_run=c["initial_run"])
    return mn, nets


def _twin_nets(trace, model, kw, solver):
    """Fresh member nets carrying the model's values, each calculated once stand-alone."""
    out = {}
    for nn in sorted(trace["nets"]):
        if nn == "power":
            net = build_power(trace["nets"]["power"])
        else:
            net = netmodel.build(trace["nets"][nn])
        for (n_, tbl, idx, col), val in model.v.items():
            if n_ == nn and tbl in net and idx in net[tbl].index:
                net[tbl].at[idx, col] = val
        solver.begin_calc([])
        try:
            if nn == "power":
                ppw.runpp(net)
            else:
                pp.pipeflow(net, **kw)
            out[nn] = (net, "ok")
        except CONV_ERRORS:
            out[nn] = (net, "nc")
        except Exception as e:
            out[nn] = (net, "exc:" + type(e).__name__)
    return out


def _close(a, b):
    return a == b or abs(a - b) <= 1e-12 * max(abs(a), abs(b))


def _check_written(res, nets, model, site, couplings):
    for (nn, tbl, idx, col, ci) in model.written:
        if nn not in nets or idx not in nets[nn][tbl].index:
            continue
        got = float(nets[nn][tbl].at[idx, col])
        want = model.v[(nn, tbl, idx, col)]
        res.oracle_checks += 1
        if not _close(got, want):
            c = couplings[ci]
            res.violate("C20", "C20/conversion:%s:%s@%s" % (c["type"], "vector" if (c.get("vector") or len(c.get("power_idx", c.get("idx_from"))) > 1) else "scalar", site),
                        "%s.%s[%s].%s got %r want %r" % (nn, tbl, idx, col, got, want))


def _compare_member(res, nets, twins, site):
    for nn in sorted(twins):
        tw, tout = twins[nn]
        if tout != "ok" or nn not in nets:
            continue
        if nn == "power":
            for t in ("res_bus", "res_line", "res_load", "res_sgen", "res_gen", "res_ext_grid"):
                a, b = nets[nn][t], tw[t]
                if a.shape != b.shape or not np.allclose(a.values.astype(float), b.values.astype(float), rtol=1e-9, atol=1e-12, equal_nan=True):
                    res.violate("C20", "C20/member-not-equal-twin:power.%s@%s" % (t, site), "")
        else:
            for x in netmodel.results_equal_bitwise(nets[nn], tw):
                res.violate("C20", "C20/member-not-equal-twin:%s.%s@%s" % ("gas", x, site), "%s %s" % (nn, x))
        res.oracle_checks += 1


def _state_digest(nets):
    from .snap import df_columns_digest
    out = {}
    for nn in sorted(nets):
        for t in ("source", "sink", "load", "sgen", "gen"):
            if t in nets[nn]:
                out["%s.%s" % (nn, t)] = df_columns_digest(nets[nn][t])
        for t in sorted(k for k in nets[nn].keys() if isinstance(k, str) and k.startswith("res_") and isinstance(nets[nn][k], pd.DataFrame)):
            if nn != "power":
                out["%s.%s" % (nn, t)] = df_columns_digest(nets[nn][t])
    return out


# ==========================================================================================
def execute(trace):
    res = RunResult()
    solver = seams.SimSolver()
    solver.install()
    seams.restore_defaults()
    try:
        _execute(trace, res, solver)
    finally:
        solver.uninstall()
        if seams.defaults_diff():
            res.violate("C14", "C14/defaults-mutated:%s" % ",".join(seams.defaults_diff()), "")
        seams.restore_defaults()
    return res


def _execute(trace, res, solver):
    run = trace["run"]
    kw = copy.deepcopy(run["kw"])
    cps = trace["couplings"]
    res.sig_parts.append(run["kind"] + ":" + ",".join(sorted(c["type"] for c in cps)))
    res.nontrivial = True
    if run["kind"] == "control_recover" and trace.get("recover"):
        _execute_recover(trace, res, solver, kw, cps)
        return
    if run["kind"] in ("control", "control2", "control_recover"):
        mn, nets = build_world(trace)
        model = Model(trace)
        model.apply_couplings(cps)
        twins = _twin_nets(trace, model, kw, solver)
        expect_ok = all(t[1] == "ok" for t in twins.values())
        foreign = any(t[1].startswith("exc") for t in twins.values())
        cc = _CalcCounter(solver, [f for f in trace["faults"]])
        cc.install()
        raised = None
        try:
            cv = None
            if run.get("per_net_cod"):
                cv = {"nets": {nn: {"continue_on_divergence": True} for nn in sorted(nets)}}
                run_control_mn(mn, ctrl_variables=cv, **kw)
                res.count("probe:per-net-continue-on-divergence")
            elif run.get("reuse_cv"):
                cv = {"nets": {}}
                run_control_mn(mn, ctrl_variables=cv, **kw)
            else:
                run_control_mn(mn, **kw)
        except Exception as e:
            raised = e
        finally:
            cc.uninstall()
        res.calcs += cc.n
        res.count("mn-control-run")
        faulted = bool(cc.fired_steps)
        if faulted:
            res.count("fault:solve-nan")
        res.log.add("control", "expect_ok", expect_ok, "raised", type(raised).__name__ if raised else None, "faulted", faulted)
        if foreign:
            res.count("probe:twin-foreign-exception")
            return
        if raised is not None and not isinstance(raised, CONV_ERRORS):
            res.violate("C20", "C20/control-run-raised:%s" % _exc_sig(raised), repr(raised)[:200])
            return
        if expect_ok and not faulted:
            if raised is not None:
                # the loop also calculates the members with the values they hold BEFORE the couplings act (initial runs):
                # if that state is infeasible (or needs more than the iteration budget) the failure is legitimate
                twins0 = _twin_nets(trace, Model(trace), kw, solver)
                if not all(t_[1] == "ok" for t_ in twins0.values()):
                    res.count("probe:initial-state-infeasible")
                    return
                res.violate("C20", "C20/converged-flag:feasible-reported-failed:%s" % type(raised).__name__, repr(raised)[:200])
                return
            _check_written(res, nets, model, "control", cps)
            _compare_member(res, nets, twins, "control")
            for nn, n_ in nets.items():
                if nn != "power" and not bool(n_.get("converged")):
                    # a member without any controller action and without initial run may stay uncalculated
                    pass
        elif not expect_ok:
            res.count("probe:member-diverged")
            if raised is None:
                res.violate("C20", "C20/converged-flag:diverged-member-not-reported", "twins: %s" % {k: v[1] for k, v in twins.items()})
        # ---- schedule search: permuted orders of independent couplings ----------------------
        if trace.get("permute") and raised is None and expect_ok and not faulted and _independent(cps):
            prng = random.Random(trace["perm_seed"])
            orders = [prng.choice([0, 0, 1, 2, 3]) for _ in cps]
            mn2, nets2 = build_world(trace, order_override=orders)
            try:
                run_control_mn(mn2, **kw)
                d1, d2 = _state_digest(nets), _state_digest(nets2)
                for k in sorted(set(d1) | set(d2)):
                    if d1.get(k) != d2.get(k):
                        res.violate("C20", "C20/order-dependent:%s" % k.split(".")[-1], k)
                res.count("probe:order-permutation-compared")
            except CONV_ERRORS as e:
                res.violate("C20", "C20/order-dependent:outcome", repr(e)[:100])
        # ---- restart of the whole multinet (C15: multi-energy nets holding controllers) ------------------
        if trace.get("restart") and raised is None and expect_ok and not faulted:
            mn, nets = _restart_multinet(res, mn, nets, trace["restart"])
            if mn is None:
                return
        # ---- second run with the same ctrl_variables after the controller table changed ------------------
        if run.get("reuse_cv") and cv is not None and raised is None and expect_ok and not faulted and len(mn.controller) >= 1 \
                and not trace.get("restart"):
            _second_run_same_ctrl_variables(res, trace, mn, nets, model, kw, solver, cv, cps)
            return
        # ---- second run: round trip power -> gas -> power ----------------------------------------
        if run["kind"] == "control2" and raised is None and expect_ok and not faulted:
            _round_trip(res, trace, mn, nets, model, kw, solver)
        return
    _execute_ts(trace, res, solver, kw, cps)


def _second_run_same_ctrl_variables(res, trace, mn, nets, model, kw, solver, cv, cps):
    """The user keeps the ctrl_variables dictionary, takes one coupling controller out of service, changes its source
    value and runs again: the idle controller must not write any more, the others act on the new values."""
    prng = random.Random(trace["perm_seed"] + 17)
    # multinet controller rows are created in the order of the couplings that exist in this (possibly shrunk) world
    rows = list(mn.controller.index)
    objs = list(mn.controller.object.values)
    k_off = prng.randrange(len(rows))
    off_obj = objs[k_off]
    mn.controller.at[rows[k_off], "in_service"] = False
    # which coupling of the trace is that? match by element indices
    def _same(c, o):
        try:
            if c["type"] == "g2g":
                return list(np.atleast_1d(o.element_index_from)) == c["idx_from"] and list(np.atleast_1d(o.element_index_to)) == c["idx_to"]
            return list(np.atleast_1d(o.elm_idx_power)) == c["power_idx"] and list(np.atleast_1d(o.elm_idx_gas)) == c["gas_idx"]
        except AttributeError:
            return False
    off = [c for c in cps if _same(c, off_obj)]
    if len(off) != 1:
        res.count("probe:reuse-cv-coupling-not-identified")
        return
    off = off[0]
    # change the source value of the idle coupling and of one active coupling (where possible)
    for c in cps:
        if c["type"] == "p2g":
            key = ("power", "load", c["power_idx"][0], "p_mw")
        elif c["type"] == "g2p":
            key = (c["gas_net"], "sink", c["gas_idx"][0], "mdot_kg_per_s")
        elif c["type"] == "g2p_led":
            key = ("power", c.get("ptype", "sgen"), c["power_idx"][0], "p_mw")
        else:
            key = (c["from_net"], "sink", c["idx_from"][0], "mdot_kg_per_s")
        if key not in model.v or any(w[:4] == key for w in model.written):
            continue   # (a value another coupling writes is not ours to edit)
        if c is not off and prng.random() < 0.5:
            # the input stays as it is, but the user overwrites what the coupling had written: it has to be
            # written again in the next run
            for w in model.written:
                if w[4] == cps.index(c) and w[2] in nets[w[0]][w[1]].index:
                    nets[w[0]][w[1]].at[w[2], w[3]] = float(nets[w[0]][w[1]].at[w[2], w[3]]) * 0.5 + 1e-4
            continue
        new = model.v[key] * 1.25
        model.v[key] = new
        nets[key[0]][key[1]].at[key[2], key[3]] = new
    before_target = {w[:4]: float(nets[w[0]][w[1]].at[w[2], w[3]]) for w in model.written}
    active = [c for c in cps if c is not off]
    if not _independent(cps):
        res.count("probe:reuse-cv-dependent-couplings-skipped")
        return
    model.apply_couplings(active)
    twins = _twin_nets(trace, model, kw, solver)
    if not all(t[1] == "ok" for t in twins.values()):
        return
    try:
        if prng.random() < 0.5:
            run_control_mn(mn, ctrl_variables=cv, **kw)
        else:
            run_control_mn(mn, **kw)      # (or a fresh set of control variables)
            res.count("probe:second-run-fresh-ctrl-variables")
    except CONV_ERRORS as e:
        res.violate("C20", "C20/second-run-same-ctrl-variables:feasible-reported-failed", repr(e)[:160])
        return
    except Exception as e:
        res.violate("C20", "C20/control-run-raised:%s" % _exc_sig(e), repr(e)[:200])
        return
    _check_written(res, nets, model, "second-run-same-ctrl-variables", active)
    # the idle coupling's targets keep what they held
    ci_off = cps.index(off)
    for key, val in before_target.items():
        if any(w[:4] == key and w[4] == ci_off for w in [(a_, b_, c_, d_, e_) for (a_, b_, c_, d_, e_) in []]):
            pass
    if off["type"] == "p2g":
        tk = [(off["gas_net"], "source", i, "mdot_kg_per_s") for i in off["gas_idx"]]
    elif off["type"] == "g2p":
        tk = [("power", off.get("ptype", "sgen"), i, "p_mw") for i in off["power_idx"]]
    elif off["type"] == "g2p_led":
        tk = [(off["gas_net"], "sink", i, "mdot_kg_per_s") for i in off["gas_idx"]]
    else:
        tk = [(off["to_net"], "source", i, "mdot_kg_per_s") for i in off["idx_to"]]
    for key in tk:
        if key in before_target and key[2] in nets[key[0]][key[1]].index:
            got = float(nets[key[0]][key[1]].at[key[2], key[3]])
            if not _close(got, before_target[key]):
                res.violate("C20", "C20/idle-coupling-wrote:%s@second-run-same-ctrl-variables" % off["type"], "%r -> %r" % (before_target[key], got))
    _compare_member(res, nets, twins, "second-run-same-ctrl-variables")
    res.count("probe:second-run-same-ctrl-variables-checked")


def _restart_multinet(res, mn, nets, path):
    """Save the MultiNet (member nets + coupling controllers), drop it, load it."""
    from . import e1
    try:
        if path == "json_enc":
            loaded = pp.from_json_string(pp.to_json(mn, encryption_key=e1.KEY), encryption_key=e1.KEY)
        elif path == "pickle_fobj":
            import io
            buf = io.BytesIO()
            pp.to_pickle(mn, buf)
            buf.seek(0)
            loaded = pp.from_pickle(buf)
        elif path == "json_file":
            # through the simulated disk and the convert=True default of from_json
            fs = seams.SimFS()
            fs.install()
            try:
                pp.to_json(mn, "/simdisk/multinet.json")
                loaded = pp.from_json("/simdisk/multinet.json")
            finally:
                fs.uninstall()
        else:
            loaded = pp.from_json_string(pp.to_json(mn))
    except Exception as e:
        res.violate("C15", "C15/multinet-roundtrip-raised:%s" % type(e).__name__, repr(e)[:200])
        return None, None
    res.count("restart:multinet-%s" % path)
    if type(loaded).__name__ != "MultiNet" or sorted(loaded["nets"]) != sorted(mn["nets"]):
        res.violate("C15", "C15/lost:multinet-structure@%s" % path.split("_")[0], "%s %s" % (type(loaded).__name__, sorted(getattr(loaded, "nets", {}))))
        return None, None
    for nn in sorted(mn["nets"]):
        a, b = mn["nets"][nn], loaded["nets"][nn]
        if type(a) is not type(b):
            res.violate("C15", "C15/lost:member-net-type@json", "%s: %s -> %s" % (nn, type(a).__name__, type(b).__name__))
            continue
        for x in e1.compare_loaded(a, b, path):
            if nn == "power":
                # pandapower's own serialisation is not pandapipes' business beyond the values the couplings use
                tbl, _, col = x.partition(".")
                col = col.split(":")[0]
                if tbl not in ("bus", "load", "sgen", "line", "ext_grid", "res_bus") or \
                        col not in ("p_mw", "q_mvar", "scaling", "bus", "in_service", "vn_kv", "vm_pu", "from_bus", "to_bus", "length_km", "@index", "@columns"):
                    continue
            res.violate("C15", "C15/lost:%s%s@json" % ("power." if nn == "power" else "", x), "member %s" % nn)
    a, b = mn["controller"], loaded["controller"]
    if len(a) != len(b) or list(a.index) != list(b.index):
        res.violate("C15", "C15/lost:multinet.controller@json", "%d -> %d rows" % (len(a), len(b)))
    else:
        for c in ("in_service", "order", "level", "initial_run"):
            if snap_canon(list(a[c].values)) != snap_canon(list(b[c].values)):
                res.violate("C15", "C15/lost:multinet.controller.%s@json" % c, "")
        for x, y in zip(a.object.values, b.object.values):
            if type(x).__name__ != type(y).__name__:
                res.violate("C15", "C15/lost:multinet.controller.object:type@json", "%s -> %s" % (type(x).__name__, type(y).__name__))
                continue
            dx, dy = vars(x), vars(y)
            bad = sorted(k for k in set(dx) | set(dy) if snap_canon(dx.get(k, "<absent>")) != snap_canon(dy.get(k, "<absent>")))
            if bad:
                res.violate("C15", "C15/lost:multinet.controller.object.%s@json" % bad[0], "%s: %r -> %r" % (type(x).__name__, dx.get(bad[0]), dy.get(bad[0])))
    res.oracle_checks += 1
    return loaded, {nn: loaded["nets"][nn] for nn in sorted(loaded["nets"])}


def snap_canon(o):
    from .snap import canon_deep
    return canon_deep(o)


def _execute_recover(trace, res, solver, kw, cps):
    """History: a control run that must fail (a coupled load the nets cannot serve, no initial runs, so the
    member diverges after the couplings acted) - the value is restored - a second control run on the same
    multinet must then behave like a first run on a fresh one."""
    rc = trace["recover"]
    mn, nets = build_world(trace)
    if rc["index"] not in nets[rc["net"]][rc["table"]].index:
        return
    nets[rc["net"]][rc["table"]].at[rc["index"], rc["col"]] = rc["bad"]
    first = None
    try:
        run_control_mn(mn, **kw)
    except CONV_ERRORS as e:
        first = e
    except Exception as e:
        res.violate("C20", "C20/control-run-raised:%s" % _exc_sig(e), repr(e)[:200])
        return
    res.count("mn-control-run")
    if first is None:
        res.count("probe:recover-first-run-did-not-fail")
    else:
        res.count("probe:recover-first-run-failed")
    nets[rc["net"]][rc["table"]].at[rc["index"], rc["col"]] = rc["good"]
    model = Model(trace)
    model.apply_couplings(cps)
    twins = _twin_nets(trace, model, kw, solver)
    if any(t[1] != "ok" for t in twins.values()):
        return
    try:
        run_control_mn(mn, **kw)
    except CONV_ERRORS as e:
        res.violate("C20", "C20/no-recovery-after-failed-run:%s" % type(e).__name__, repr(e)[:160])
        return
    except Exception as e:
        res.violate("C20", "C20/control-run-raised:%s" % _exc_sig(e), repr(e)[:200])
        return
    res.count("mn-control-run")
    _check_written(res, nets, model, "control-after-failed-run", cps)
    _compare_member(res, nets, twins, "control-after-failed-run")
    res.count("probe:recover-second-run-checked")


def _independent(cps):
    seen = set()
    for c in cps:
        els = set()
        if "power_idx" in c:
            els |= {("power", "load" if c["type"] == "p2g" else c.get("ptype", "sgen"), i) for i in c["power_idx"]}
            els |= {(c["gas_net"], "source" if c["type"] == "p2g" else "sink", i) for i in c["gas_idx"]}
        else:
            els |= {(c["from_net"], "sink", i) for i in c["idx_from"]} | {(c["to_net"], "source", i) for i in c["idx_to"]}
        if els & seen:
            return False
        seen |= els
    return True


def _round_trip(res, trace, mn, nets, model, kw, solver):
    """Feed the mass flow a P2G unit produced into a gas->power unit of the same gas net."""
    p2g = [c for c in trace["couplings"] if c["type"] == "p2g"]
    g2p = [c for c in trace["couplings"] if c["type"] == "g2p" and p2g and c["gas_net"] == p2g[0]["gas_net"]]
    if not p2g or not g2p:
        return
    a, b = p2g[0], g2p[0]
    gn = a["gas_net"]
    src, snk = a["gas_idx"][0], b["gas_idx"][0]
    load, sgen = a["power_idx"][0], b["power_idx"][0]
    if src not in nets[gn].source.index or snk not in nets[gn].sink.index:
        return
    m = float(nets[gn].source.at[src, "mdot_kg_per_s"])
    # simulator edit between the two runs: the sink consumes what the source produced
    nets[gn].sink.at[snk, "mdot_kg_per_s"] = m
    nets[gn].sink.at[snk, "scaling"] = 1.0
    model.v[(gn, "sink", snk, "mdot_kg_per_s")] = m
    model.v[(gn, "sink", snk, "scaling")] = 1.0
    try:
        run_control_mn(mn, **kw)
    except CONV_ERRORS:
        res.count("probe:round-trip-second-run-diverged")
        return
    p_in = model.v[("power", "load", load, "p_mw")] * model.v[("power", "load", load, "scaling")]
    got = float(nets["power"][b.get("ptype", "sgen")].at[sgen, "p_mw"])
    want = p_in * a["eff"] * b["eff"]
    res.oracle_checks += 1
    res.count("probe:round-trip-checked")
    if not (abs(got - want) <= 1e-10 * max(abs(want), 1e-30)):
        res.violate("C20", "C20/round-trip:p2g-then-g2p", "got %r want eta1*eta2*p = %r" % (got, want))


def _execute_ts(trace, res, solver, kw, cps):
    run = trace["run"]
    steps = list(run["time_steps"])
    if not steps:
        return
    mn, nets = build_world(trace)
    ows = {}
    for nn in sorted(nets):
        ow = OutputWriter(nets[nn], time_steps=steps, output_path=None, log_variables=[])
        if nn == "power":
            ow.log_variable("res_bus", "vm_pu")
            ow.log_variable("res_sgen", "p_mw")
        else:
            ow.log_variable("res_junction", "p_bar")
            ow.log_variable("res_source", "mdot_kg_per_s")
            ow.log_variable("res_sink", "mdot_kg_per_s")
        ows[nn] = ow
    cc = _CalcCounter(solver, [f for f in trace["faults"]])
    cc.install()
    SIMCLOCK["t"] = None
    raised = None
    try:
        run_timeseries_mn(mn, time_steps=steps, continue_on_divergence=run["cod"], verbose=False, **kw)
    except Exception as e:
        raised = e
    finally:
        cc.uninstall()
    res.calcs += cc.n
    res.count("mn-ts-run")
    if raised is not None:
        for ow in ows.values():
            try:
                ow._np_to_pd()
            except Exception:
                pass
    model = Model(trace)
    expect_abort_at = None
    foreign = False
    desync = False
    last_step_clean = True
    after_divergence = False
    for pos, t in enumerate(steps):
        last_step_clean = True
        for c in trace["const"]:
            for i, nm in zip(c["element_index"], c["profile"]):
                if nm in trace["profiles"]:
                    model.v[(c["net"], c["element"], i, c["variable"])] = trace["profiles"][nm][t] * c["scale_factor"]
        if after_divergence:
            # What the coupling controllers wrote in the diverged step is still in the nets when this step starts, and
            # a level that is evaluated before they write again meets it.  If those left-over values alone make a member
            # infeasible, this step cannot be calculated either: a consequence of the diverged step that the loop does
            # not contain (recorded as a finding); the model stops judging this run.
            pre = _twin_nets(trace, model, kw, solver)
            if not all(v[1] == "ok" for v in pre.values()):
                res.count("probe:step-poisoned-by-diverged-step")
                flagged_now = False
                for nn, ow in ows.items():
                    pf = ow.output.get("Parameters")
                    if pf is not None and "powerflow_failed" in pf and t in pf.index and bool(pf["powerflow_failed"].loc[t]):
                        flagged_now = True
                if flagged_now:
                    res.violate("C13", "C13/later-step-fails-on-values-left-by-diverged-step@multinet,cod=True", "step %d" % t, pos)
                return
            after_divergence = False
        model.apply_couplings(cps)
        twins = _twin_nets(trace, model, kw, solver)
        res.sim_steps += 1
        faulted = t in cc.fired_steps
        if faulted:
            res.count("fault:solve-nan-in-step")
        touts = {k: v[1] for k, v in twins.items()}
        if any(o.startswith("exc") for o in touts.values()):
            foreign = True
            res.count("probe:twin-foreign-exception")
            break
        all_ok = all(o == "ok" for o in touts.values())
        flagged = {}
        for nn, ow in ows.items():
            pf = ow.output.get("Parameters")
            flagged[nn] = bool(pf["powerflow_failed"].loc[t]) if pf is not None and "powerflow_failed" in pf and t in pf.index else False
        res.log.add("step", t, touts, "flag", flagged, "fault", faulted)
        res.sig_parts.append("%s%s" % ("o" if all_ok else "d", "x" if faulted else ""))
        later_calcs = sum(cc.per_step.get(s_, 0) for s_ in steps[pos + 1:])
        aborted_here = raised is not None and later_calcs == 0
        if all_ok and not faulted:
            if any(flagged.values()):
                res.violate("C13", "C13/feasible-step-reported-failed@multinet", "step %d" % t, pos)
            elif not aborted_here:
                for nn in sorted(nets):
                    tw = twins[nn][0]
                    ow = ows[nn]
                    logs = [("res_bus", "vm_pu")] if nn == "power" else [("res_junction", "p_bar"), ("res_source", "mdot_kg_per_s"), ("res_sink", "mdot_kg_per_s")]
                    for tbl, var in logs:
                        key = "%s.%s" % (tbl, var)
                        if key not in ow.output or t not in ow.output[key].index:
                            continue
                        got = ow.output[key].loc[t].values.astype(float)
                        want = tw[tbl][var].values.astype(float)
                        same = np.array_equal(got, want, equal_nan=True) if nn != "power" else np.allclose(got, want, rtol=1e-9, atol=1e-12, equal_nan=True)
                        if len(got) != len(want) or not same:
                            res.violate("C13", "C13/step-not-equal-twin:%s.%s@multinet" % ("power" if nn == "power" else "gas", key), "step %d net %s" % (t, nn), pos)
                            # C20: "after a coupled ... time series every member net holds the results of a
                            # stand-alone calculation with the written values"
                            res.violate("C20", "C20/member-not-equal-twin:%s.%s@timeseries-step" % ("power" if nn == "power" else "gas", key),
                                        "step %d net %s" % (t, nn), pos)
                res.oracle_checks += 1
                res.count("probe:mn-step-equals-twin-checked")
            continue
        if all_ok and faulted:
            if aborted_here and not run["cod"]:
                expect_abort_at = pos
                break
            last_step_clean = False
            if not _independent(cps):
                res.count("probe:model-desync-after-fault")
                desync = True
                break
            continue
        # some member diverges in this step ------------------------------------------------------
        res.count("probe:mn-diverged-step")
        if not run["cod"]:
            expect_abort_at = pos
            break
        if raised is not None and aborted_here:
            res.violate("C13", "C13/loop-aborted:%s@multinet,cod=True" % _exc_sig(raised), repr(raised)[:160], pos)
            return
        if not any(flagged.values()):
            res.violate("C13", "C13/diverged-step-not-reported@multinet,cod=True", "step %d" % t, pos)
            res.violate("C20", "C20/converged-flag:diverged-member-not-reported@timeseries-step", "step %d" % t, pos)
        after_divergence = True
        # in a failed step the controllers may or may not have acted before the calculation failed:
        # targets of independent couplings are rewritten in the next step, dependent chains may have
        # read a stale value - the model cannot follow those, stop judging
        last_step_clean = False
        if not _independent(cps):
            res.count("probe:model-desync-after-divergence")
            desync = True
            break
    if foreign or desync:
        return
    if expect_abort_at is not None:
        if raised is None:
            res.violate("C13", "C13/loop-continued-after-divergence@multinet,cod=False", "", expect_abort_at)
        elif not isinstance(raised, CONV_ERRORS):
            res.violate("C13", "C13/loop-aborted:%s@multinet,cod=False" % _exc_sig(raised), repr(raised)[:160], expect_abort_at)
        else:
            res.count("probe:mn-aborted-at-diverged-step")
    elif raised is not None:
        res.violate("C13", "C13/loop-aborted:%s@multinet,cod=%s" % (_exc_sig(raised), run["cod"]), repr(raised)[:160], len(steps))
        if not isinstance(raised, CONV_ERRORS):
            # a coupled time series of feasible steps left with a foreign exception: also a C20 matter
            res.violate("C20", "C20/timeseries-raised:%s" % _exc_sig(raised), repr(raised)[:160], len(steps))
    elif last_step_clean:
        # final state of the last step: written values and member results
        _check_written(res, nets, model, "timeseries", cps)


def _exc_sig(exc):
    """Exception class, plus a message slug for anything that is not a convergence error."""
    import re
    name = type(exc).__name__
    if name in ("PipeflowNotConverged", "LoadflowNotConverged", "NetCalculationNotConverged", "ControllerNotConverged"):
        return name
    return "%s:%s" % (name, re.sub(r"[^a-z]+", "-", str(exc).lower())[:40].strip("-"))
