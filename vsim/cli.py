"""Command line driver:  cli.py <PROP> [--tier quick|thorough] | --replay FILE | selftest-*

Exit codes: 0 property held on everything explored (KNOWN-FINDING lines allowed),
            1 + 'VIOLATION property=<id> replay=<path>' for a reproducible, unlisted violation,
            2 + 'HARNESS-ERROR ...' when the check itself is broken.
"""
import argparse
import faulthandler
import json
import os
import shutil
import subprocess
import sys
import tempfile
import time
import traceback
import warnings

HERE = os.path.dirname(os.path.abspath(__file__))
VERIF = os.path.dirname(HERE)
if VERIF not in sys.path:
    sys.path.insert(0, VERIF)
if os.environ.get("VERIF_REPO"):
    sys.path.insert(0, os.path.join(os.environ["VERIF_REPO"], "src"))

PY = sys.executable

# property -> list of (engine, share of runs)
PROP_STREAMS = {
    "C05": [("e1", 0.6), ("e2", 0.4)],
    "C06": [("e4", 1.0)],
    "C07": [("e1", 1.0)],
    "C12": [("e1", 1.0)],
    "C13": [("e3", 0.55), ("e3m", 0.45)],
    "C14": [("e1", 0.85), ("e3", 0.15)],
    "C15": [("e1", 0.7), ("e3", 0.15), ("e3m", 0.15)],
    "C16": [("e4", 1.0)],
    "C17": [("e4", 1.0)],
    "C20": [("e3m", 1.0)],
}
# runs per tier (cap by wall budget as well); E2 runs are batches of scripted sequences
TIER = {
    "quick": {"runs": {"e1": 400, "e2": 400, "e3": 400, "e3m": 360, "e4": 800}, "budget_s": 75, "K": 2,
              "shrink_s": 25},
    "thorough": {"runs": {"e1": 8000, "e2": 6000, "e3": 8000, "e3m": 8000, "e4": 12000}, "budget_s": 900, "K": 4,
                 "shrink_s": 120},
}
RUN_TIMEOUT_S = 300
# properties whose code iterates over sets of strings: the first N run indices are executed under EVERY
# hash-seed class and the final world digests are compared across classes by the parent
CROSS_HASH = {"C17": 96}
MAX_SHRINK_JOBS = 12
# thorough tier: known findings are confirmed on the minimised trace for at most this many signatures per check (each
# confirmation is a shrink of up to two minutes; C16 alone hits more than a hundred signature variants of three findings)
MAX_KNOWN_CONFIRMATIONS = 16


def _engine(name):
    import importlib
    return importlib.import_module("vsim." + name)


def _setup_runtime():
    warnings.simplefilter("ignore")
    from vsim import seams
    seams.quiet_logging()
    import pandas as pd
    pd.options.mode.chained_assignment = None


# ------------------------------------------------------------------------------------------
# child: one interpreter per hash-seed class, forks a worker pool
# ------------------------------------------------------------------------------------------
def _worker_run(args):
    engine_name, prop, tier, seed, index = args
    faulthandler.dump_traceback_later(RUN_TIMEOUT_S, exit=True)
    try:
        from vsim import core
        eng = _engine(engine_name)
        rs = core.run_seed(seed, engine_name, prop, index)
        t0 = time.perf_counter()
        trace = eng.generate(rs, tier, prop)
        import hashlib
        tdig = hashlib.sha256(core.canon_json(trace).encode()).hexdigest()
        trace["hashseed"] = int(os.environ.get("PYTHONHASHSEED", "0"))
        trace["run_index"] = index
        res = eng.execute(trace)
        out = res.to_json()
        out.update(engine=engine_name, index=index, run_seed=rs, wall=time.perf_counter() - t0,
                   trace_digest=tdig, hashseed=trace["hashseed"])
        mine = [v for v in out["violations"] if v["prop"] == prop]
        out["others"] = sorted({v["sig"] for v in out["violations"] if v["prop"] != prop})
        out["violations"] = mine
        if mine or index < 3 or index < CROSS_HASH.get(prop, 0):
            out["trace"] = trace
        return out
    except Exception:
        return {"engine": engine_name, "index": index, "harness_error": traceback.format_exc()}
    finally:
        faulthandler.cancel_dump_traceback_later()


def child_main(a):
    _setup_runtime()
    from concurrent.futures import ProcessPoolExecutor, as_completed
    import multiprocessing as mp
    from vsim import warmup
    warmup.warm()
    for en in sorted({e for e, _ in PROP_STREAMS[a.prop]}):
        _engine(en)
    cfg = TIER[a.tier]
    jobs = []
    for en, share in PROP_STREAMS[a.prop]:
        n = int(cfg["runs"][en] * share * a.scale)
        for i in range(n):
            if i % a.K == a.hash or i < CROSS_HASH.get(a.prop, 0):
                jobs.append((en, a.prop, a.tier, a.seed, i))
    # interleave engines so that a budget cut hits all streams evenly
    jobs.sort(key=lambda j: (j[4], j[0]))
    deadline = time.time() + a.budget
    done = 0
    import gc
    gc.collect()
    gc.freeze()  # keep the collector from touching (and copy-on-write duplicating) the inherited heap
    with open(a.out, "w") as fout, ProcessPoolExecutor(max_workers=a.workers, mp_context=mp.get_context("fork")) as pool:
        pending = set()
        it = iter(jobs)
        exhausted = False
        try:
            while True:
                while not exhausted and len(pending) < a.workers * 2 and time.time() < deadline:
                    try:
                        j = next(it)
                    except StopIteration:
                        exhausted = True
                        break
                    pending.add(pool.submit(_worker_run, j))
                if not pending:
                    break
                fin = next(as_completed(pending, timeout=RUN_TIMEOUT_S + 30))
                pending.discard(fin)
                fout.write(json.dumps(fin.result()) + "\n")
                done += 1
        except Exception:
            fout.write(json.dumps({"harness_error": "pool failure: " + traceback.format_exc()}) + "\n")
        fout.write(json.dumps({"child_done": True, "planned": len(jobs), "executed": done,
                               "capped": not exhausted}) + "\n")
    return 0


# ------------------------------------------------------------------------------------------
# shrink + replay (run in an interpreter with the trace's hash seed)
# ------------------------------------------------------------------------------------------
def _has_sig(eng, trace, prop, sig):
    try:
        res = eng.execute(trace)
    except Exception:
        return False
    return any(v.prop == prop and v.sig == sig for v in res.violations)


def shrink_main(a):
    _setup_runtime()
    from vsim import core, warmup
    warmup.warm()
    with open(a.shrink) as f:
        job = json.load(f)
    trace, prop, sig = job["trace"], job["prop"], job["sig"]
    eng = _engine(trace["engine"])
    deadline = time.time() + a.budget
    budget = lambda: time.time() < deadline  # noqa: E731
    if not _has_sig(eng, trace, prop, sig):
        json.dump({"reproduced": False}, open(a.out, "w"))
        return 0
    steps = 0
    changed = True
    while changed and budget():
        changed = False
        for path in getattr(eng, "SHRINK_LISTS", [("ops",)]):
            cur = trace
            try:
                for p in path[:-1]:
                    cur = cur[p]
            except (KeyError, IndexError, TypeError):
                continue
            items = cur.get(path[-1]) if isinstance(cur, dict) else None
            if not isinstance(items, list) or not items:
                continue

            def test(cand, cur=cur, key=path[-1]):
                nonlocal steps
                steps += 1
                old = cur[key]
                cur[key] = cand
                ok = _has_sig(eng, trace, prop, sig)
                cur[key] = old
                return ok
            new = core.ddmin_list(items, test, budget)
            if len(new) < len(items):
                cur[path[-1]] = new
                changed = True
        simp = getattr(eng, "simplify", None)
        if simp is not None:
            for cand in simp(trace):
                if not budget():
                    break
                steps += 1
                if _has_sig(eng, cand, prop, sig):
                    trace = cand
                    changed = True
                    break
    json.dump({"reproduced": True, "trace": trace, "steps": steps}, open(a.out, "w"))
    return 0


def replay_main(path, quiet=False):
    _setup_runtime()
    with open(path) as f:
        rp = json.load(f)
    trace = rp["trace"]
    if rp.get("cross_hash"):
        a_, b_ = rp["cross_hash"][:2]
        fa, fb = _final_state_of(path, a_), _final_state_of(path, b_)
        print("  final state under PYTHONHASHSEED=%s: %s\n  final state under PYTHONHASHSEED=%s: %s" % (a_, fa, b_, fb))
        if fa != fb:
            print("VIOLATION property=%s replay=%s" % (rp["property"], path))
            return 1
        print("replay did not reproduce %s" % rp["signature"])
        return 0
    want_hs = str(trace.get("hashseed", 0))
    if os.environ.get("PYTHONHASHSEED") != want_hs:
        env = dict(os.environ, PYTHONHASHSEED=want_hs)
        return subprocess.call([PY, os.path.abspath(__file__), "--replay", path] + (["--quiet"] if quiet else []), env=env)
    from vsim import warmup
    warmup.warm()
    eng = _engine(trace["engine"])
    res = eng.execute(trace)
    sigs = sorted({v.sig for v in res.violations if v.prop == rp["property"]})
    if not quiet:
        for v in res.violations:
            print("  op#%d %s | %s" % (v.op_index, v.sig, v.detail[:300]))
    if rp["signature"] in sigs:
        print("VIOLATION property=%s replay=%s" % (rp["property"], path))
        print("REPLAY-DIGEST %s" % res.log.digest())
        return 1
    print("replay did not reproduce %s (got %s)" % (rp["signature"], sigs))
    return 0


# ------------------------------------------------------------------------------------------
# parent
# ------------------------------------------------------------------------------------------
def _scratch():
    base = os.environ.get("VERIF_TMP") or ("/dev/shm" if os.path.isdir("/dev/shm") else tempfile.gettempdir())
    return tempfile.mkdtemp(prefix="vsim-", dir=base)


def check_main(a):
    from vsim import core
    t_start = time.time()
    prop, tier, seed = a.prop, a.tier, a.seed
    cfg = TIER[tier]
    K = cfg["K"]
    ncpu = os.cpu_count() or 4
    workers = max(1, (a.workers or ncpu) // K)
    scratch = _scratch()
    status = 0
    try:
        procs = []
        for h in range(K):
            out = os.path.join(scratch, "child%d.jsonl" % h)
            env = dict(os.environ, PYTHONHASHSEED=str(h))
            cmd = [PY, os.path.abspath(__file__), "--child", prop, "--tier", tier, "--seed", str(seed),
                   "--hash", str(h), "--K", str(K), "--workers", str(workers),
                   "--budget", str(a.budget or cfg["budget_s"]), "--out", out, "--scale", str(a.scale)]
            procs.append((h, out, subprocess.Popen(cmd, env=env, stdout=subprocess.DEVNULL,
                                                   stderr=open(os.path.join(scratch, "child%d.err" % h), "w"))))
        results, herrs, capped = [], [], False
        for h, out, p in procs:
            try:
                rc = p.wait(timeout=(a.budget or cfg["budget_s"]) + RUN_TIMEOUT_S + 120)
            except subprocess.TimeoutExpired:
                p.kill()
                herrs.append("child %d timed out" % h)
                continue
            ok_done = False
            if os.path.exists(out):
                for line in open(out):
                    r = json.loads(line)
                    if r.get("child_done"):
                        ok_done = True
                        capped = capped or r["capped"]
                    elif "harness_error" in r:
                        herrs.append(r["harness_error"])
                    else:
                        results.append(r)
            if rc != 0 or not ok_done:
                err = open(os.path.join(scratch, "child%d.err" % h)).read()[-2000:]
                herrs.append("child %d rc=%s done=%s stderr: %s" % (h, rc, ok_done, err))
        results.sort(key=lambda r: (r["engine"], r["index"], r.get("hashseed", 0)))
        # ---- cross-hash comparison: the same trace must end in the same world under every hash seed ----
        groups = {}
        for r in results:
            if r["index"] < CROSS_HASH.get(prop, 0) and r.get("final_state"):
                groups.setdefault((r["engine"], r["index"]), []).append(r)
        cross_compared = 0
        for key, rs in sorted(groups.items()):
            if len(rs) < 2:
                continue
            cross_compared += 1
            if len({r["final_state"] for r in rs}) > 1:
                a_, b_ = rs[0], [r for r in rs if r["final_state"] != rs[0]["final_state"]][0]
                a_["violations"].append({"prop": prop, "sig": "%s/hash-seed-dependent-final-state" % prop,
                                         "detail": "PYTHONHASHSEED %s vs %s" % (a_["hashseed"], b_["hashseed"]), "op": -1})
                a_["cross_hash"] = [a_["hashseed"], b_["hashseed"]]
        # only one copy of a cross-hash run counts as an evaluation
        seen_idx = set()
        uniq = []
        for r in results:
            k_ = (r["engine"], r["index"])
            if k_ in seen_idx and not r["violations"]:
                continue
            seen_idx.add(k_)
            uniq.append(r)
        results = uniq
        CROSS_COMPARED[prop] = cross_compared

        # ---- violations ------------------------------------------------------------------
        known = core.known_findings(prop)
        by_sig = {}
        for r in results:
            for v in r["violations"]:
                by_sig.setdefault(v["sig"], []).append(r)
        new_violations = []
        known_hit = []
        jobs = []   # (sig, run, finding or None)
        only = os.environ.get("VERIF_ONLY_SIG")
        n_confirm = 0
        for sig in sorted(by_sig):
            if only and only not in sig:
                continue
            runs = sorted(by_sig[sig], key=lambda r: (len(json.dumps(r.get("trace", {}))), r["index"]))
            finding = known.get(sig)
            if finding is None:
                jobs.append((sig, runs[0], None))
                continue
            matched = [r for r in runs if core.finding_matches(finding, r.get("trace", {}))]
            unmatched = [r for r in runs if not core.finding_matches(finding, r.get("trace", {}))]
            if unmatched:
                jobs.append((sig, unmatched[0], None))      # same class, different circumstances
            if matched:
                if tier == "thorough" and n_confirm < MAX_KNOWN_CONFIRMATIONS:
                    jobs.append((sig, matched[0], finding))     # confirm on the minimised trace
                    n_confirm += 1
                else:
                    known_hit.append(sig)                       # matched on the failing run's own network
        if os.environ.get("VERIF_NO_SHRINK"):
            for (sig_, r_, f_) in jobs:
                print("UNSHRUNK %s engine=%s index=%d" % (sig_, r_["engine"], r_["index"]))
            status = 1 if jobs else status
            jobs = []
        jobs = jobs[:MAX_SHRINK_JOBS] + [(s_, r_, f_) for (s_, r_, f_) in jobs[MAX_SHRINK_JOBS:] if f_ is not None]
        from concurrent.futures import ThreadPoolExecutor
        with ThreadPoolExecutor(max_workers=min(8, max(1, len(jobs)))) as tp:
            futs = [tp.submit(_shrink_and_write, prop, sig, r, scratch, cfg["shrink_s"], seed, k)
                    for k, (sig, r, f) in enumerate(jobs)]
            outs = [f.result() for f in futs]
        for (sig, r, finding), rp in zip(jobs, outs):
            if rp is None:
                herrs.append("non-reproducible violation %s (engine %s index %d)" % (sig, r["engine"], r["index"]))
                continue
            if finding is not None:
                mini = json.load(open(rp))["trace"]
                if core.finding_matches(finding, mini):
                    known_hit.append(sig)
                    os.remove(rp)
                    continue
            new_violations.append((sig, rp))
        for sig in known_hit:
            print("KNOWN-FINDING: property=%s %s (%s; %d runs)" % (prop, sig, known[sig].get("what", ""), len(by_sig[sig])))
        for sig, rp in new_violations:
            print("VIOLATION property=%s replay=%s" % (prop, rp))
            print("  signature: %s" % sig)
            status = 1
        if herrs:
            for h in herrs[:5]:
                print("HARNESS-ERROR %s" % h.strip().splitlines()[-1][:300])
                sys.stderr.write(h + "\n")
            status = 2
        _write_evidence(prop, tier, seed, results, new_violations, known_hit, time.time() - t_start, capped, herrs, K)
        nrun = len(results)
        print("%s tier=%s seed=%d runs=%d calcs=%d violations=%d known=%d wall=%.1fs%s" % (
            prop, tier, seed, nrun, sum(r.get("calcs", 0) for r in results), len(new_violations),
            len(known_hit), time.time() - t_start, " (capped by wall budget)" if capped else ""))
        if not results and status == 0:
            print("HARNESS-ERROR no runs executed")
            status = 2
    finally:
        shutil.rmtree(scratch, ignore_errors=True)
    return status


def _final_state_of(path, hs):
    env = dict(os.environ, PYTHONHASHSEED=str(hs))
    cp = subprocess.run([PY, os.path.abspath(__file__), "--final-state", path], env=env, capture_output=True, text=True,
                        timeout=RUN_TIMEOUT_S * 2)
    for line in cp.stdout.splitlines():
        if line.startswith("FINAL-STATE "):
            return line.split()[1]
    return None


def final_state_main(path):
    _setup_runtime()
    rp = json.load(open(path))
    from vsim import warmup
    warmup.warm()
    eng = _engine(rp["trace"]["engine"])
    res = eng.execute(rp["trace"])
    print("FINAL-STATE %s" % res.final_state)
    return 0


def _write_cross_hash_replay(prop, sig, r, seed):
    rdir = os.path.join(VERIF, "replays")
    os.makedirs(rdir, exist_ok=True)
    path = os.path.join(rdir, "%s-crosshash-s%d-r%d.json" % (prop, seed, r["index"]))
    json.dump({"property": prop, "signature": sig, "verif_seed": seed, "engine": r["engine"], "run_index": r["index"],
               "run_seed": r["run_seed"], "cross_hash": r.get("cross_hash", [0, 1]), "trace": r["trace"]},
              open(path, "w"), indent=1, sort_keys=True)
    a_, b_ = (r.get("cross_hash") or [0, 1])[:2]
    fa, fb = _final_state_of(path, a_), _final_state_of(path, b_)
    if fa is None or fb is None or fa == fb:
        return None
    return path


def _shrink_and_write(prop, sig, r, scratch, shrink_s, seed, k=0):
    if sig.endswith("/hash-seed-dependent-final-state"):
        return _write_cross_hash_replay(prop, sig, r, seed)
    trace = r["trace"]
    hs = str(trace.get("hashseed", 0))
    env = dict(os.environ, PYTHONHASHSEED=hs)
    job = os.path.join(scratch, "shrink-job%d.json" % k)
    out = os.path.join(scratch, "shrink-out%d.json" % k)
    json.dump({"trace": trace, "prop": prop, "sig": sig}, open(job, "w"))
    if os.path.exists(out):
        os.remove(out)
    try:
        subprocess.call([PY, os.path.abspath(__file__), "--shrink", job, "--out", out, "--budget", str(shrink_s)],
                        env=env, timeout=shrink_s + RUN_TIMEOUT_S, stdout=subprocess.DEVNULL)
    except subprocess.TimeoutExpired:
        pass
    mini = trace
    steps = 0
    if os.path.exists(out):
        o = json.load(open(out))
        if not o.get("reproduced"):
            return None
        mini, steps = o["trace"], o.get("steps", 0)
    rdir = os.path.join(VERIF, "replays")
    os.makedirs(rdir, exist_ok=True)
    import hashlib
    tag = hashlib.sha256(sig.encode()).hexdigest()[:8]
    path = os.path.join(rdir, "%s-%s-s%d-r%d.json" % (prop, tag, seed, r["index"]))
    json.dump({"property": prop, "signature": sig, "verif_seed": seed, "engine": r["engine"],
               "run_index": r["index"], "run_seed": r["run_seed"], "shrink_steps": steps,
               "original_ops": len(trace.get("ops", [])), "minimised_ops": len(mini.get("ops", [])),
               "trace": mini}, open(path, "w"), indent=1, sort_keys=True)
    # replay in a fresh interpreter; only a reproducing replay may be reported
    env2 = dict(os.environ, PYTHONHASHSEED=hs)
    cp = None
    for _attempt in range(2):   # a heavily loaded machine may need a second go; a timeout is never a verdict
        try:
            cp = subprocess.run([PY, os.path.abspath(__file__), "--replay", path, "--quiet"], env=env2,
                                capture_output=True, text=True, timeout=RUN_TIMEOUT_S * 3)
            break
        except subprocess.TimeoutExpired:
            continue
    if cp is None:
        return None
    if cp.returncode != 1 or "VIOLATION property=%s" % prop not in cp.stdout:
        return None
    return path


CROSS_COMPARED = {}


def _write_evidence(prop, tier, seed, results, new_violations, known_hit, wall, capped, herrs, K):
    from vsim import core
    sigs = {}
    counters = {}
    by_engine = {}
    for r in results:
        if r.get("nontrivial"):
            sigs[r["signature"]] = sigs.get(r["signature"], 0) + 1
        for k, v in r.get("counters", {}).items():
            counters[k] = counters.get(k, 0) + v
        e = by_engine.setdefault(r["engine"], {"runs": 0, "calcs": 0, "sim_steps": 0, "oracle_checks": 0, "wall": 0.0})
        e["runs"] += 1
        e["calcs"] += r.get("calcs", 0)
        e["sim_steps"] += r.get("sim_steps", 0)
        e["oracle_checks"] += r.get("oracle_checks", 0)
        e["wall"] += r.get("wall", 0.0)
    faults = {k[6:]: v for k, v in counters.items() if k.startswith("fault:")}
    probes = {k[6:]: v for k, v in counters.items() if k.startswith("probe:")}
    cells = sorted(k for k in counters if k.startswith("optcell:") or k.startswith("faultcell:") or k.startswith("cell:"))
    other = {k: v for k, v in counters.items() if not (k.startswith("fault:") or k.startswith("probe:") or
                                                       k.startswith("optcell:") or k.startswith("faultcell:") or k.startswith("cell:"))}
    samples = []
    for r in results:
        if "trace" in r and len(samples) < 3:
            t = r["trace"]
            rest = {k: v for k, v in t.items() if k not in ("program", "nets", "meta", "profiles", "ops", "knobs", "engine", "prop", "seed", "tier")}
            samples.append({"engine": r["engine"], "run_index": r["index"], "run_seed": r["run_seed"],
                            "ops": t.get("ops", [])[:40], "knobs": t.get("knobs"),
                            "scenario": json.loads(json.dumps(rest, default=str))[:0] if False else rest,
                            "net": [o["fn"] for o in t.get("program", {}).get("ops", [])] if "program" in t else
                                   {k: ([o["fn"] for o in v["ops"]] if isinstance(v, dict) and "ops" in v else v) for k, v in t.get("nets", {}).items()}})
    eng_mods = sorted(by_engine)
    real, stub = [], []
    for en in eng_mods:
        m = _engine(en)
        real += getattr(m, "REAL", [])
        stub += getattr(m, "STUB", [])
    ev = {
        "property_id": prop, "tier": tier, "seed": seed, "level": "exploration",
        "coverage": {
            "evaluations": len(results),
            "cross_hash_seed_comparisons": CROSS_COMPARED.get(prop, 0),
            "distinct_nontrivial": len(sigs),
            "rule": "One evaluation = one seeded simulated session (trace generated from run_seed = H(VERIF_SEED, engine, "
                    "property, index), then executed without further randomness). Non-trivial = executed at least one "
                    "calculation/create/toolbox op and at least one oracle comparison; distinct = distinct run signature "
                    "(network family, sequence of op kinds with modes, outcome classes and fault cells fired).",
            "samples": samples,
            "runs_per_hour": round(len(results) / max(wall, 1e-9) * 3600),
            "per_engine": by_engine,
            "calculations_executed": sum(e["calcs"] for e in by_engine.values()),
            "simulated_time_steps": sum(e["sim_steps"] for e in by_engine.values()),
            "oracle_comparisons": sum(e["oracle_checks"] for e in by_engine.values()),
            "faults_fired_per_kind": faults,
            "reach_probes": probes,
            "distinct_cells_reached": len(cells),
            "cells": cells[:400],
            "other_counters": other,
            "hash_seed_classes": K,
            "capped_by_wall_budget": capped,
            "other_property_alarms_seen_not_judged_here": sorted({s for r in results for s in r.get("others", [])})[:50],
            "known_findings_hit": known_hit,
            "new_violation_signatures": [s for s, _ in new_violations],
            "components_real": sorted(set(real)), "components_stub": sorted(set(stub)),
            "harness_errors": len(herrs),
        },
        "assumptions": [
            "sampled schedules / fault sequences, not exhaustive: a clean batch is evidence, not proof",
            "pandapower's control loop, OutputWriter and runpp run as real code but are not the system under test",
            "determinism of replay is checked by the selftest-determinism command (same seed twice, fresh interpreters, two hash seeds)",
        ],
        "wall_s": round(wall, 2),
        "violations": len(new_violations),
    }
    evdir = os.environ.get("VERIF_EVIDENCE_DIR") or os.path.join(VERIF, "evidence")
    os.makedirs(evdir, exist_ok=True)
    core.json_dump(ev, os.path.join(evdir, "%s.json" % prop))


def main():
    ap = argparse.ArgumentParser()
    ap.add_argument("prop", nargs="?")
    ap.add_argument("--tier", default=os.environ.get("VERIF_TIER", "quick"))
    ap.add_argument("--seed", type=int, default=int(os.environ.get("VERIF_SEED", "0")))
    ap.add_argument("--replay")
    ap.add_argument("--quiet", action="store_true")
    ap.add_argument("--child")
    ap.add_argument("--shrink")
    ap.add_argument("--final-state", dest="final_state")
    ap.add_argument("--hash", type=int, default=0)
    ap.add_argument("--K", type=int, default=2)
    ap.add_argument("--workers", type=int, default=0)
    ap.add_argument("--budget", type=float, default=0)
    ap.add_argument("--scale", type=float, default=1.0)
    ap.add_argument("--out")
    a = ap.parse_args()
    if a.tier not in TIER:
        a.tier = "quick"
    if a.final_state:
        return final_state_main(a.final_state)
    if a.replay:
        return replay_main(a.replay, a.quiet)
    if a.child:
        a.prop = a.child
        return child_main(a)
    if a.shrink:
        return shrink_main(a)
    if a.prop == "selftest-mutants":
        from vsim import mutants
        return mutants.main(a)
    if a.prop and a.prop.startswith("selftest"):
        from vsim import selftest
        return selftest.main(a)
    if a.prop not in PROP_STREAMS:
        print("HARNESS-ERROR unknown property %r" % a.prop)
        return 2
    return check_main(a)


if __name__ == "__main__":
    sys.exit(main())
