"""Core of the deterministic simulator: seed discipline, event log + digests, violations,
known findings, trace shrinking (ddmin), evidence records.

Nothing in here reads a clock or draws from a PRNG on an execution path; wall-clock reads
are confined to the batch driver (budgets / evidence) and never influence a run.
"""
import hashlib
import json
import math
import os
import sys

import numpy as np
import pandas as pd

VERIF_DIR = os.path.dirname(os.path.dirname(os.path.abspath(__file__)))
MASK = (1 << 64) - 1


# ------------------------------------------------------------------------------------------
# seeds
# ------------------------------------------------------------------------------------------
def _splitmix(x):
    x = (x + 0x9E3779B97F4A7C15) & MASK
    z = x
    z = ((z ^ (z >> 30)) * 0xBF58476D1CE4E5B9) & MASK
    z = ((z ^ (z >> 27)) * 0x94D049BB133111EB) & MASK
    return z ^ (z >> 31)


def mix(*parts):
    """Order-sensitive integer hash of ints/strings; independent of PYTHONHASHSEED."""
    h = 0x243F6A8885A308D3
    for p in parts:
        if isinstance(p, str):
            p = int.from_bytes(hashlib.sha256(p.encode()).digest()[:8], "big")
        h = _splitmix((h ^ (int(p) & MASK)) & MASK)
    return h


def run_seed(verif_seed, engine, prop, index):
    return mix(verif_seed, engine, prop, index) & ((1 << 53) - 1)


# ------------------------------------------------------------------------------------------
# digests
# ------------------------------------------------------------------------------------------
def _canon_obj(v):
    """Canonical, hash-seed independent text for one python object found in a table cell."""
    if v is None:
        return "None"
    if isinstance(v, (float, np.floating)):
        if math.isnan(v):
            return "nan"
        return float(v).hex()
    if isinstance(v, (bool, np.bool_)):
        return "T" if v else "F"
    if isinstance(v, (int, np.integer)):
        return "i%d" % int(v)
    if isinstance(v, str):
        return "s" + v
    if isinstance(v, (list, tuple)):
        return "[" + ",".join(_canon_obj(x) for x in v) + "]"
    if isinstance(v, np.ndarray):
        return "a" + str(v.dtype) + str(v.shape) + hashlib.sha256(
            np.ascontiguousarray(v).tobytes()).hexdigest()[:16]
    if isinstance(v, dict):
        return "{" + ",".join("%s:%s" % (_canon_obj(k), _canon_obj(v[k]))
                              for k in sorted(v, key=str)) + "}"
    return "o<%s>" % type(v).__name__


def digest_array(a):
    a = np.asarray(a)
    if a.dtype == object:
        return hashlib.sha256("|".join(_canon_obj(x) for x in a.ravel()).encode()).hexdigest()[:16]
    if a.dtype.kind == "f":
        a = a.copy()
        a[np.isnan(a)] = np.nan  # canonical NaN payload
    return hashlib.sha256(str(a.dtype).encode() + str(a.shape).encode() +
                          np.ascontiguousarray(a).tobytes()).hexdigest()[:16]


def digest_df(df, with_dtypes=True):
    h = hashlib.sha256()
    h.update(("cols:" + "|".join(map(str, df.columns))).encode())
    h.update(("idx:" + str(df.index.dtype) + digest_array(df.index.values)).encode())
    for c in df.columns:
        col = df[c]
        if with_dtypes:
            h.update(str(col.dtype).encode())
        h.update(digest_array(col.values).encode())
    return h.hexdigest()[:16]


class EventLog:
    """Append-only run log; its sha256 is the run digest used by the determinism self-test."""

    def __init__(self):
        self.lines = []

    def add(self, *parts):
        self.lines.append(" ".join(str(p) for p in parts))

    def digest(self):
        return hashlib.sha256("\n".join(self.lines).encode()).hexdigest()


# ------------------------------------------------------------------------------------------
# violations / results
# ------------------------------------------------------------------------------------------
class Violation:
    __slots__ = ("prop", "sig", "detail", "op_index")

    def __init__(self, prop, sig, detail="", op_index=-1):
        self.prop = prop
        self.sig = sig  # stable class string "<prop>/<oracle>:<detail>@<site>", no numbers
        self.detail = detail
        self.op_index = op_index

    def to_json(self):
        return {"prop": self.prop, "sig": self.sig, "detail": self.detail, "op": self.op_index}

    @staticmethod
    def from_json(d):
        return Violation(d["prop"], d["sig"], d.get("detail", ""), d.get("op", -1))


class HarnessError(Exception):
    """The check itself misbehaved (never a pass, never a VIOLATION)."""


class RunResult:
    def __init__(self):
        self.violations = []   # list[Violation]
        self.log = EventLog()
        self.counters = {}     # reach probes, fault counts ...
        self.sig_parts = []    # used for the distinct-run signature
        self.nontrivial = False
        self.calcs = 0
        self.sim_steps = 0
        self.oracle_checks = 0
        self.final_state = None  # hash-seed independent digest of the final world (cross-hash comparison)

    def count(self, key, n=1):
        self.counters[key] = self.counters.get(key, 0) + n

    def violate(self, prop, sig, detail="", op_index=-1):
        self.violations.append(Violation(prop, sig, detail, op_index))
        self.log.add("VIOLATION", sig)

    def to_json(self):
        return {"violations": [v.to_json() for v in self.violations],
                "digest": self.log.digest(), "counters": self.counters,
                "signature": hashlib.sha256("|".join(self.sig_parts).encode()).hexdigest()[:16],
                "nontrivial": bool(self.nontrivial), "calcs": self.calcs,
                "sim_steps": self.sim_steps, "oracle_checks": self.oracle_checks,
                "nlog": len(self.log.lines), "final_state": self.final_state}


# ------------------------------------------------------------------------------------------
# known findings
# ------------------------------------------------------------------------------------------
def load_known_findings():
    path = os.environ.get("VERIF_KNOWN_FINDINGS") or os.path.join(VERIF_DIR, "known_findings.json")  # (override: triage aid)
    if not os.path.exists(path):
        return {"findings": [], "fixed": []}
    with open(path) as f:
        return json.load(f)


class _Findings:
    """Known findings of one property.  An entry matches a violation signature either exactly
    (`signature`) or by `signature_regex` (full match) - the regex form is used where one root cause
    surfaces at one call site under several variable names / outcome pairs.  Matching additionally
    requires the failing network to contain rows in all `requires_tables`."""

    def __init__(self, entries):
        import re
        self.entries = entries
        self._rx = [(re.compile(e["signature_regex"]), e) for e in entries if e.get("signature_regex")]
        self._exact = {e["signature"]: e for e in entries if e.get("signature")}

    def get(self, sig):
        if sig in self._exact:
            return self._exact[sig]
        for rx, e in self._rx:
            if rx.fullmatch(sig):
                return e
        return None

    def __getitem__(self, sig):
        return self.get(sig)


def known_findings(prop):
    kf = load_known_findings()
    return _Findings([e for e in kf.get("findings", []) if e["property"] == prop])


def tables_in_trace(trace):
    from .netmodel import TABLE_OF
    tabs = set()
    for op in trace.get("program", {}).get("ops", []) + [o for o in trace.get("ops", []) if isinstance(o, dict) and o.get("op") == "create"]:
        t = TABLE_OF.get(op.get("fn"))
        if t:
            tabs.add(t)
        if t == "valve" and op.get("kw", {}).get("et") == "pi":
            tabs.add("valve:pi")   # pseudo table: a valve attached to a pipe
    for nm in trace.get("nets", {}).values() if isinstance(trace.get("nets"), dict) else []:
        for op in nm.get("ops", []):
            t = TABLE_OF.get(op.get("fn"))
            if t:
                tabs.add(t)
    return tabs


def finding_matches(finding, trace):
    req = finding.get("requires_tables") or []
    if req and not set(req) <= tables_in_trace(trace):
        return False
    return True


# ------------------------------------------------------------------------------------------
# shrinking
# ------------------------------------------------------------------------------------------
def ddmin_list(items, test, budget):
    """Classic ddmin on a list. test(list)->bool (True = still fails). budget: callable -> bool
    (True while shrinking may continue)."""
    n = 2
    items = list(items)
    while len(items) >= 1 and budget():
        if len(items) == 1:
            if test([]):
                items = []
            break
        chunk = max(1, len(items) // n)
        subsets = [items[i:i + chunk] for i in range(0, len(items), chunk)]
        reduced = False
        # try complements (removing one chunk)
        for i in range(len(subsets)):
            if not budget():
                break
            comp = [x for j, s in enumerate(subsets) if j != i for x in s]
            if test(comp):
                items = comp
                n = max(n - 1, 2)
                reduced = True
                break
        if not reduced:
            if chunk == 1:
                break
            n = min(len(items), n * 2)
    return items


def json_dump(obj, path):
    tmp = path + ".tmp"
    with open(tmp, "w") as f:
        json.dump(obj, f, indent=1, sort_keys=True, default=_json_default)
    os.replace(tmp, path)


def _json_default(o):
    if isinstance(o, (np.integer,)):
        return int(o)
    if isinstance(o, (np.floating,)):
        return float(o)
    if isinstance(o, (np.bool_,)):
        return bool(o)
    if isinstance(o, np.ndarray):
        return o.tolist()
    raise TypeError("not JSON serialisable: %r" % type(o))


def canon_json(obj):
    return json.dumps(obj, sort_keys=True, default=_json_default)
