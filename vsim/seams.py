"""Seams the simulator owns: the linear solver device, the disk, process-global state.

All of them use attributes that already exist in pandapipes / pandapower (no source hook):
 * ``sys.modules["pandapipes.pipeflow"].spsolve``  - the only path to the linear solver
 * ``open`` / ``os`` as looked up inside ``pandapipes.io.file_io`` and ``pandapower.io_utils``
 * ``pandapipes.pf.pipeflow_setup.default_options`` - the one process-global mutable dict
"""
import copy
import errno
import io
import os as _real_os
import sys

import numpy as np
from scipy.sparse.linalg import spsolve as _real_spsolve

import pandapipes  # noqa: F401  (makes sure the modules below are imported)

PF_MOD = sys.modules["pandapipes.pipeflow"]
SETUP_MOD = sys.modules["pandapipes.pf.pipeflow_setup"]

PRISTINE_DEFAULTS = copy.deepcopy(SETUP_MOD.default_options)


# ------------------------------------------------------------------------------------------
# solver device
# ------------------------------------------------------------------------------------------
class SolveRecord:
    __slots__ = ("stage", "niter", "pass_no", "nn", "nb", "bnorm", "x", "alpha", "method",
                 "fault", "mode", "b_has_nan", "max_iter_name", "bidir")

    def brief(self):
        xn = float(np.max(np.abs(self.x))) if len(self.x) else 0.0
        return "%s p%d i%d n%d b%d |b|=%r |x|=%r a=%r f=%s" % (
            self.stage, self.pass_no, self.niter, self.nn, self.nb, self.bnorm, xn, self.alpha,
            self.fault)


class SimSolver:
    """Fault-injecting wrapper around scipy's spsolve, installed at the module-attribute seam.

    The fault plan of the *current* calculation is a list of dicts
    ``{"stage": "hyd"|"heat", "call": k, "kind": ...}`` where k counts the solver calls of that
    stage inside the current calculation op (0-based).  At most the listed calls are faulted.
    """

    def __init__(self):
        self.records = []
        self.plan = []
        self.fired = []
        self._stage_calls = {"hyd": 0, "heat": 0}
        self._pass_no = -1
        self._last_nr_frame_id = None
        self.enabled_record = True

    # -- control -------------------------------------------------------------------------
    def begin_calc(self, plan=None):
        self.records = []
        self.plan = list(plan or [])
        self.fired = []
        self._stage_calls = {"hyd": 0, "heat": 0}
        self._pass_no = -1
        self._last_nr_frame_id = None

    def install(self):
        PF_MOD.spsolve = self

    @staticmethod
    def uninstall():
        PF_MOD.spsolve = _real_spsolve

    # -- the device ----------------------------------------------------------------------
    def __call__(self, A, b):
        fr = sys._getframe(1)
        fname = fr.f_code.co_name
        stage = "hyd" if fname == "solve_hydraulics" else (
            "heat" if fname == "solve_temperature" else "?")
        loc = fr.f_locals
        options = loc.get("options", {})
        # walk up to newton_raphson to read niter and detect a new pass
        nr = fr.f_back
        bidir = False
        depth = 0
        while nr is not None and nr.f_code.co_name != "newton_raphson" and depth < 4:
            if nr.f_code.co_name == "solve_bidirectional":
                bidir = True
            nr = nr.f_back
            depth += 1
        niter = -1
        max_iter_name = None
        if nr is not None and nr.f_code.co_name == "newton_raphson":
            niter = nr.f_locals.get("niter", -1)
            max_iter_name = nr.f_locals.get("iter_name")
            key = id(nr)
            if key != self._last_nr_frame_id or (niter == 0 and not (bidir and stage == "heat")):
                self._pass_no += 1
                self._last_nr_frame_id = key
        k = self._stage_calls.get(stage, 0)
        self._stage_calls[stage] = k + 1

        x = _real_spsolve(A, b)
        fault = None
        for f in self.plan:
            if f["stage"] == stage and f["call"] == k:
                fault = f["kind"]
                x = self._apply_fault(np.array(x, dtype=np.float64, copy=True), f)
                self.fired.append(dict(f))
        rec = SolveRecord()
        rec.stage, rec.niter, rec.pass_no = stage, niter, self._pass_no
        rec.nn = len(loc["node_pit"]) if "node_pit" in loc else -1
        rec.nb = len(loc["branch_pit"]) if "branch_pit" in loc else -1
        bb = np.asarray(b, dtype=np.float64)
        rec.b_has_nan = bool(np.any(~np.isfinite(bb)))
        rec.bnorm = float(np.max(np.abs(bb))) if len(bb) else 0.0
        rec.x = np.array(x, dtype=np.float64, copy=True)
        rec.alpha = options.get("alpha")
        rec.method = options.get("nonlinear_method")
        rec.mode = options.get("mode")
        rec.fault = fault
        rec.max_iter_name = max_iter_name
        rec.bidir = bidir
        self.records.append(rec)
        return x

    @staticmethod
    def _apply_fault(x, f):
        kind = f["kind"]
        n = len(x)
        if n == 0:
            return x
        if kind == "nan":
            x[:] = np.nan
        elif kind == "inf":
            x[f.get("pos", 0) % n] = np.inf
        elif kind == "partial-nan":
            x[f.get("pos", 0) % n] = np.nan
        elif kind == "garbage":
            # bounded wrong step: scale one entry and shift another
            i = f.get("pos", 0) % n
            x[i] = x[i] * f.get("scale", 3.0) + f.get("shift", 1e-3)
        else:
            raise ValueError("unknown solver fault %r" % kind)
        return x


# ------------------------------------------------------------------------------------------
# simulated disk
# ------------------------------------------------------------------------------------------
class _SimFile:
    def __init__(self, fs, path, mode, initial):
        self.fs, self.path, self.mode = fs, path, mode
        self.binary = "b" in mode
        self.writing = any(c in mode for c in "wax+")
        self.buf = (io.BytesIO if self.binary else io.StringIO)(initial)
        self.closed = False

    def write(self, data):
        self.fs._maybe_fail("write", self.path)
        self.fs.log.append(("write", self.path, len(data)))
        return self.buf.write(data)

    def read(self, *a):
        return self.buf.read(*a)

    def readline(self, *a):
        return self.buf.readline(*a)

    def seek(self, *a):
        return self.buf.seek(*a)

    def tell(self):
        return self.buf.tell()

    def flush(self):
        pass

    def close(self):
        if self.closed:
            return
        self.closed = True
        if self.writing:
            v = self.buf.getvalue()
            self.fs.files[self.path] = v if self.binary else v.encode("utf-8")
            self.fs.log.append(("commit", self.path, len(self.fs.files[self.path])))

    def __enter__(self):
        return self

    def __exit__(self, et, ev, tb):
        if et is None:
            self.close()
        else:
            self.closed = True  # an aborted write never becomes durable
        return False

    def __iter__(self):
        return iter(self.buf)


class _FakePath:
    def __init__(self, fs):
        self._fs = fs

    def isfile(self, p):
        return p in self._fs.files

    def exists(self, p):
        return p in self._fs.files

    def __getattr__(self, name):
        return getattr(_real_os.path, name)


class _FakeOs:
    def __init__(self, fs):
        self.path = _FakePath(fs)

    def __getattr__(self, name):
        return getattr(_real_os, name)


class SimFS:
    """In-process disk: path -> bytes, with injectable write errors and a write log."""

    def __init__(self):
        self.files = {}
        self.log = []
        self.fail_next = None  # ("open"|"write", errno)
        self.faults_fired = 0
        self._patched = []

    def _maybe_fail(self, where, path):
        if self.fail_next and self.fail_next[0] == where:
            eno = self.fail_next[1]
            self.fail_next = None
            self.faults_fired += 1
            self.log.append(("fault", where, path, eno))
            raise OSError(eno, _real_os.strerror(eno), path)

    def open(self, path, mode="r", *a, **kw):
        if not isinstance(path, str):
            raise HarnessFSError("SimFS.open called with non-str path %r" % (path,))
        writing = any(c in mode for c in "wax+")
        if writing:
            self._maybe_fail("open", path)
            initial = b"" if "b" in mode else ""
        else:
            if path not in self.files:
                raise FileNotFoundError(errno.ENOENT, "No such file (SimFS)", path)
            data = self.files[path]
            initial = data if "b" in mode else data.decode("utf-8")
        self.log.append(("open", path, mode))
        return _SimFile(self, path, mode, initial)

    def install(self):
        import pandapower.io_utils as ppio
        fio = sys.modules["pandapipes.io.file_io"]
        fake_os = _FakeOs(self)
        for mod in (fio, ppio):
            self._patched.append((mod, mod.__dict__.get("open", _MISSING),
                                  mod.__dict__.get("os", _MISSING)))
            mod.open = self.open
            mod.os = fake_os

    def uninstall(self):
        for mod, o_open, o_os in self._patched:
            if o_open is _MISSING:
                mod.__dict__.pop("open", None)
            else:
                mod.open = o_open
            if o_os is _MISSING:
                mod.__dict__.pop("os", None)
            else:
                mod.os = o_os
        self._patched = []


class HarnessFSError(Exception):
    pass


_MISSING = object()


# ------------------------------------------------------------------------------------------
# process-global state
# ------------------------------------------------------------------------------------------
def defaults_diff():
    """Keys of pipeflow_setup.default_options that differ from the import-time snapshot."""
    cur = SETUP_MOD.default_options
    diff = []
    for k in sorted(set(cur) | set(PRISTINE_DEFAULTS)):
        if k not in cur or k not in PRISTINE_DEFAULTS:
            diff.append(k)
        else:
            a, b = cur[k], PRISTINE_DEFAULTS[k]
            if type(a) is not type(b) or a != b:
                diff.append(k)
    return diff


def restore_defaults():
    SETUP_MOD.default_options.clear()
    SETUP_MOD.default_options.update(copy.deepcopy(PRISTINE_DEFAULTS))


def quiet_logging():
    import logging
    for name in ("pandapipes", "pandapower"):
        logging.getLogger(name).setLevel(logging.CRITICAL)
    for name in list(logging.root.manager.loggerDict):
        if name.startswith("pandapipes") or name.startswith("pandapower"):
            lg = logging.getLogger(name)
            lg.setLevel(logging.CRITICAL)


class ColebrookSpy:
    """Observation seam: the arguments with which the friction-factor iteration is really started (the option values
    *in force*, as opposed to the values resolved into net._options)."""

    def __init__(self):
        import pandapipes.pf.derivative_calculation as dc
        self.mod = dc
        self.orig = None
        self.calls = []

    def install(self):
        self.orig = self.mod.colebrook_white
        orig, calls = self.orig, self.calls

        def spy(re, d, k, lambda_nikuradse, max_iter, *args, **kwargs):
            tol = args[1] if len(args) > 1 else kwargs.get("tolerance", kwargs.get("tol"))
            calls.append((max_iter, tol))
            return orig(re, d, k, lambda_nikuradse, max_iter, *args, **kwargs)
        self.mod.colebrook_white = spy

    def uninstall(self):
        if self.orig is not None:
            self.mod.colebrook_white = self.orig
            self.orig = None
