"""Engine E1 - whole user sessions on one net object.

A trace is generated completely before execution (generation draws from the run PRNG, execution
never does).  Ops:  calc / repeat / edit / setopt / initopt / restart.
Oracles evaluated while the run proceeds (each attributed to one property):

 C12  durable state unchanged by a calculation; repetition bit-identical; result == fresh twin
      built from the simulator's description; heat-from-stored == twin's sequential run
 C05  verdict model on every normal return (last iteration of every Newton pass, from the solver
      seam); clean failure (exception class, converged flag, no numbers, budget); recovery
 C14  option store model vs net._options / net.user_pf_options / default_options
 C15  restart (save -> drop -> load over the simulated disk): loaded == original (deep), later
      ops == never-restarted shadow; disk write errors
 C07  replicas of the same history differing in one engine / matrix-reuse knob agree
"""
import copy
import io
import json
import random

import numpy as np
import pandas as pd

import pandapipes as pp
from pandapipes.idx_branch import MDOTINIT
from pandapipes.idx_node import PINIT
from pandapipes.pf.pipeflow_setup import PipeflowNotConverged, init_options

from . import netgen, netmodel, seams, snap
from .core import RunResult, mix, canon_json

ENGINE = "e1"
SHRINK_LISTS = [("ops",), ("program", "ops")]
REAL = ["pandapipes (all of it: create_*, pipeflow, Newton driver, components, result extraction, io)",
        "scipy.sparse.linalg.spsolve (behind the fault-injecting SimSolver seam)", "pandas/numpy/numba"]
STUB = ["disk (SimFS: in-process path->bytes with injectable ENOSPC/EIO)"]
PROPS = ("C05", "C07", "C12", "C14", "C15")

# The model's own table of default values: what the documentation (docstring of init_options) states for the keys
# it lists, and the values of the pinned tree for the keys it does not list.  Deliberately NOT read from the module
# under test, so that a default silently changed in the code is a disagreement with the model.
OPTION_DEFAULTS = {"friction_model": "nikuradse", "tol_p": 1e-5, "tol_m": 1e-5, "tol_T": 1e-3, "tol_res": 1e-3,
                   "max_iter_hyd": 10, "max_iter_therm": 10, "max_iter_bidirect": 10, "error_flag": False, "alpha": 1,
                   "nonlinear_method": "constant", "mode": "hydraulics", "ambient_temperature": 293.15,
                   "check_connectivity": True, "max_iter_colebrook": 10, "only_update_hydraulic_matrix": False,
                   "reuse_internal_data": False, "use_numba": True, "quit_on_inconsistency_connectivity": False,
                   "calc_compression_power": True, "transient": False, "dt": None, "tolerance_colebrook": 1e-4}


def documented_defaults():
    """{key: value} parsed from the docstring of init_options ("- **key** (type): value - text")."""
    import ast
    import re
    doc = init_options.__doc__ or ""
    out = {}
    for m in re.finditer(r"-\s+\*\*([a-zA-Z_]+)\*\*\s+\([a-z]+\):\s+(\S+)\s+-", doc):
        try:
            out[m.group(1)] = ast.literal_eval(m.group(2))
        except (ValueError, SyntaxError):
            out[m.group(1)] = m.group(2)
    return out
STAGE_ITER = ("max_iter_hyd", "max_iter_therm", "max_iter_bidirect")
REL_MARGIN = 1e-9  # verdict model: comparisons closer than this to a tolerance are not judged

THERMAL_COLS = ("t_k", "t_from_k", "t_to_k", "t_outlet_k")


# ==========================================================================================
# generation
# ==========================================================================================
def generate(seed, tier, prop):
    rng = random.Random(seed)
    thorough = tier == "thorough"
    nops = rng.randint(4, 12) if not thorough else rng.randint(6, 30)
    fam = rng.choice(["gas", "gas", "water", "water", "heat", "heat"])
    maxj = rng.choice([3, 5, 8]) if not thorough else rng.choice([3, 5, 8, 12])
    big = rng.random() < 0.05
    # a JSON restart sorts every table by index, so only C15 histories need ascending labels
    sorted_labels = True if prop == "C15" else rng.random() < 0.65
    program, meta = netgen.gen_program(rng, family=fam, max_junctions=maxj, sorted_labels=sorted_labels,
                                       big_labels=big)
    if prop == "C15" and program["fluid"] == "water" and rng.random() < 0.4:
        # custom fluid (C15's quantifier names custom fluids explicitly): one seeded property class each
        T = [280.0, 300.0, 320.0, 340.0, 360.0, 380.0]
        dens = [round(1130.0 - 0.45 * t, 3) for t in T]
        visc = [round(2e-3 - 4e-6 * t, 9) for t in T]
        # wide table for the non-extrapolating variant (a query outside the table is an error by design)
        Tw = [200.0, 280.0, 320.0, 360.0, 420.0, 600.0]
        densw = [round(1130.0 - 0.45 * t, 3) for t in Tw]
        viscw = [round(2.6e-3 - 4e-6 * t, 9) for t in Tw]
        program["fluid_spec"] = {"name": "custom_liquid", "type": "liquid", "props": {
            "density": rng.choice([["linear", -0.45, 1130.0], ["interextra", T, dens], ["polynominal", T, dens, 2],
                                   ["interextra", Tw, densw, "interpolate"]]),
            "viscosity": rng.choice([["constant", 8e-4, False], ["constant", 8e-4, True], ["interextra", T, visc],
                                     ["polynominal", T, visc, 1], ["interextra", Tw, viscw, "interpolate"]]),
            "heat_capacity": rng.choice([["constant", 4180.0, False], ["linear", 0.5, 4000.0]])}}
        program["fluid"] = "custom_liquid"
    if prop == "C15":
        if rng.random() < 0.35:
            # the standard type library is part of what is saved: user-changed, user-defined and deleted types
            used_pumps = {o["kw"]["std_type"] for o in program["ops"] if o["fn"] == "create_pump"}
            used_pipes = {o["kw"]["std_type"] for o in program["ops"] if o["fn"] == "create_pipe"}
            eds = []
            for _ in range(rng.randint(1, 3)):
                kind = rng.choice(["pipe_change", "pipe_new", "pipe_delete", "pump_redefine", "pump_delete"])
                if kind == "pipe_change":
                    eds.append({"kind": kind, "name": rng.choice(netgen.PIPE_STD_TYPES), "data": {"k_mm": rng.choice([0.7, 0.03])}})
                elif kind == "pipe_new":
                    eds.append({"kind": kind, "name": "my_pipe_%d" % len(eds), "data": {"inner_diameter_mm": 123.4, "outer_diameter_mm": 140.0,
                                                                                      "k_mm": 0.15, "u_w_per_m2k": 1.1, "note": "custom"}})
                elif kind == "pipe_delete":
                    cand = [n_ for n_ in ("315_PE_80_SDR_17", "80_GGG", "200_ST<16") if n_ not in used_pipes]
                    if cand:
                        eds.append({"kind": kind, "name": rng.choice(cand)})
                elif kind == "pump_redefine":
                    eds.append({"kind": kind, "name": rng.choice(["P1", "P2"]), "coeffs": [round(rng.uniform(-0.002, -0.0005), 5), 0.01, round(rng.uniform(4, 9), 2)]})
                else:
                    cand = [n_ for n_ in ("P3", "P2") if n_ not in used_pumps]
                    if cand:
                        eds.append({"kind": kind, "name": cand[0]})
            # one edit per type name
            seen_, eds2 = set(), []
            for e_ in eds:
                if (e_["kind"][:4], e_["name"]) not in seen_:
                    seen_.add((e_["kind"][:4], e_["name"]))
                    eds2.append(e_)
            program["std_edits"] = eds2
        if rng.random() < 0.3:
            # entries of the net that are not tables: kept as they are (tuples stay tuples)
            program["entries"] = {"project_info": rng.choice([{"__tuple__": ["rev", 3]}, {"owner": "x", "limits": {"__tuple__": [1.5, 2.5]}},
                                                               ["a", 1, 2.5]])}
        if rng.random() < 0.4:
            program["sector"] = {"gas": "gas", "water": "water", "heat": "heat"}[fam]
        if rng.random() < 0.4:
            program["extras"] = [{"table": rng.choice(["source", "mass_storage", "compressor", "pump", "flow_control"]),
                                  "column": rng.choice(["zone", "owner"]), "dtype": rng.choice(["object", "float32", "int64"])}]
    fault_free = rng.random() < 0.3
    knobs = {
        "numba": rng.random() < 0.5,
        "fault_free": fault_free,
        "switch_engine": rng.random() < 0.15,
        "fault_kinds": sorted(rng.sample(["solve-nan", "solve-inf", "solve-partial-nan", "solve-garbage",
                                          "infeasible", "tiny-budget", "no-feeder", "no-t-feeder"],
                                         rng.randint(1, 8))) if not fault_free else [],
        # C14: "numba falls back when unavailable" - the availability flag of the setup module is a seam
        "numba_unavailable": prop == "C14" and rng.random() < 0.15,
        "opt_keys": sorted(rng.sample(["friction_model", "nonlinear_method", "alpha", "tol", "iter",
                                       "ambient_temperature", "check_connectivity",
                                       "max_iter_colebrook", "unknown"], rng.randint(0, 9))),
    }
    g = _Gen(rng, program, meta, knobs, prop, thorough)
    ops = g.make_ops(nops)
    trace = {"engine": ENGINE, "prop": prop, "seed": seed, "tier": tier, "program": program,
             "meta": meta, "knobs": knobs, "ops": ops}
    return trace


class _Gen:
    def __init__(self, rng, program, meta, knobs, prop, thorough):
        self.rng, self.program, self.meta, self.knobs, self.prop = rng, program, meta, knobs, prop
        self.thorough = thorough
        self.values = {}      # (table, idx, col) -> current value in the description
        for op in program["ops"]:
            t = _table_of(op["fn"])
            for c, v in op["kw"].items():
                self.values[(t, op["kw"]["index"], c)] = v
        self.pending_undo = []
        self.last_calc = None
        self.last_hyd_ok_possible = False
        self.dirty_since_hyd = True
        self.user = {}
        self.topo_dirty = False
        self.restarts_allowed = prop in ("C15",)
        self.reuse_allowed = prop in ("C07",)

    # -- helpers -------------------------------------------------------------------------
    def modes(self):
        m = ["hydraulics", "hydraulics"]
        if self.meta["thermal"]:
            m += ["sequential", "sequential", "bidirectional"]
        return m

    def calc_kw(self, tiny_budget=False):
        rng, K = self.rng, self.knobs["opt_keys"]
        kw = {"mode": rng.choice(self.modes())}
        numba = self.knobs["numba"]
        if self.knobs["switch_engine"] and rng.random() < 0.4:
            numba = not numba
        kw["use_numba"] = numba
        if "friction_model" in K and rng.random() < 0.6:
            kw["friction_model"] = rng.choice(["nikuradse", "colebrook", "swamee-jain"])
        method = "constant"
        if "nonlinear_method" in K and rng.random() < 0.5:
            method = "automatic"
            kw["nonlinear_method"] = method
        alpha = 1
        if "alpha" in K and rng.random() < 0.4:
            alpha = rng.choice([0.5, 0.5, 0.2, 1])
            kw["alpha"] = alpha
        if "tol" in K and rng.random() < 0.5:
            which = rng.choice(["loose", "tight", "one"])
            if which == "loose":
                kw.update(tol_p=1e-2, tol_m=1e-2, tol_T=1e-1, tol_res=1e-1)
            elif which == "tight":
                kw.update(tol_p=1e-8, tol_m=1e-8, tol_T=1e-6, tol_res=1e-6)
            else:
                kw[rng.choice(["tol_p", "tol_m", "tol_T", "tol_res"])] = rng.choice([1e-3, 1e-6, 1e-7])
        budget = 60 if alpha == 1 else 200
        if tiny_budget:
            budget = rng.choice([1, 1, 2, 3])
        form = rng.choice(["iter", "stage", "both", "none"]) if "iter" in K else "iter"
        if form == "none" and (tiny_budget or alpha != 1):
            form = "iter"
        if form == "none":
            pass    # the budget comes from the stored user options or the defaults
        elif form == "iter":
            kw["iter"] = budget
        elif form == "stage":
            kw.update(max_iter_hyd=budget, max_iter_therm=budget, max_iter_bidirect=budget)
        else:
            kw["iter"] = budget
            kw[rng.choice(STAGE_ITER)] = budget + rng.choice([0, 5])
        if "ambient_temperature" in K and rng.random() < 0.3:
            kw["ambient_temperature"] = rng.choice([273.15, 283.15, 300.0])
        if "check_connectivity" in K and rng.random() < 0.15:
            kw["check_connectivity"] = False
        if "max_iter_colebrook" in K and rng.random() < 0.3:
            kw["max_iter_colebrook"] = rng.choice([3, 10, 100])
        if "unknown" in K and rng.random() < 0.2:
            kw["my_unknown_option"] = rng.choice([1, "x", 2.5])
        if self.reuse_allowed:
            pass
        return kw

    def solver_fault(self, kw):
        rng = self.rng
        kinds = [k for k in self.knobs["fault_kinds"] if k.startswith("solve-")]
        if not kinds:
            return []
        kind = rng.choice(kinds)[len("solve-"):]
        stage = "hyd"
        if kw.get("mode") in ("sequential", "bidirectional", "all") and rng.random() < 0.5:
            stage = "heat"
        call = rng.choice([0, 0, 1, 1, 2, 3, 5])
        f = {"stage": stage, "call": call, "kind": kind, "pos": rng.randrange(0, 64)}
        if kind == "garbage":
            f["scale"] = rng.choice([-2.0, 0.5, 3.0, 10.0])
            f["shift"] = rng.choice([0.0, 1e-3, 0.1])
        return [f]

    # -- op makers -----------------------------------------------------------------------
    WEIGHTS = {
        #        calc  edit  repeat setopt initopt restart heat  undo  reusepair
        "C12": (0.38, 0.16, 0.08, 0.08, 0.03, 0.00, 0.10, 0.12, 0.05),
        "C05": (0.57, 0.10, 0.05, 0.06, 0.00, 0.00, 0.07, 0.11, 0.04),
        "C14": (0.30, 0.05, 0.02, 0.30, 0.28, 0.00, 0.02, 0.03, 0.00),
        "C15": (0.33, 0.12, 0.02, 0.10, 0.00, 0.24, 0.10, 0.07, 0.02),
        "C07": (0.50, 0.32, 0.03, 0.05, 0.00, 0.00, 0.00, 0.10, 0.00),
    }

    def make_ops(self, n):
        rng = self.rng
        ops = []
        w = self.WEIGHTS.get(self.prop, self.WEIGHTS["C12"])
        kinds = ("calc", "edit", "repeat", "setopt", "initopt", "restart", "heat", "undo", "reusepair")
        # always start with one plain calculation so there is state to be stale about
        while len(ops) < n:
            k = rng.choices(kinds, weights=w)[0] if ops else "calc"
            if k == "calc":
                ops.extend(self.op_calc())
            elif k == "edit":
                ops.extend(self.op_edit())
            elif k == "repeat":
                if self.last_calc:
                    ops.append({"op": "repeat"})
                else:
                    ops.extend(self.op_calc())
            elif k == "setopt":
                ops.append(self.op_setopt())
            elif k == "initopt":
                ops.append({"op": "initopt", "kw": self.opt_kw()})
            elif k == "restart":
                ops.append(self.op_restart())
                if rng.random() < 0.5:
                    # ... edit the loaded copy, then load the same blob again
                    ops.extend(self.op_edit())
                    ops.append(self.op_reload_check())
            elif k == "heat" and self.meta["thermal"]:
                ops.extend(self.op_heat_from_stored())
            elif k == "reusepair":
                ops.extend(self.op_reuse_pair() if rng.random() < 0.6 else self.op_budget_history())
            else:
                ops.extend(self.op_undo())
        ops.extend(self.op_undo(all_=True))
        ops.extend(self.op_calc(force_plain=True))
        return ops

    # catalogue for the option-store profile (C14): every documented key with sample values
    OPT_CATALOGUE = [
        ("friction_model", ["nikuradse", "colebrook", "swamee-jain"]),
        ("tol_p", [1e-4, 1e-6]), ("tol_m", [1e-4, 1e-6]), ("tol_T", [1e-2, 1e-4]), ("tol_res", [1e-2, 1e-4]),
        ("max_iter_hyd", [40, 70]), ("max_iter_therm", [40, 70]), ("max_iter_bidirect", [40, 70]),
        ("iter", [50, 90]), ("error_flag", [True, False]), ("alpha", [1, 0.5]),
        ("nonlinear_method", ["constant", "automatic"]), ("ambient_temperature", [283.15, 300.0]),
        ("check_connectivity", [True, False]), ("max_iter_colebrook", [20, 100]),
        ("only_update_hydraulic_matrix", [True, False]), ("reuse_internal_data", [True, False]),
        ("use_numba", [True, False]), ("quit_on_inconsistency_connectivity", [True, False]),
        ("calc_compression_power", [True, False]), ("transient", [False]), ("dt", [None, 60]),
        ("tolerance_colebrook", [1e-4, 1e-6]), ("my_unknown_option", [1, "x"]), ("another_unknown", [2.5]),
        ("interactive_plotting", [False]), ("t_start", [0]),
    ]

    def opt_kw(self, nmax=5, allow_mode=True):
        """Option kwargs for the C14 profile: random subset of the catalogue (+ mode)."""
        if self.prop != "C14":
            return self.calc_kw()
        rng = self.rng
        kw = {}
        for k, vals in rng.sample(self.OPT_CATALOGUE, rng.randint(0, nmax)):
            kw[k] = rng.choice(vals)
        if allow_mode and rng.random() < 0.6:
            m = self.modes() + (["all"] if self.meta["thermal"] else [])
            kw["mode"] = rng.choice(m)
        return kw

    def op_calc(self, force_plain=False):
        rng = self.rng
        pf = 0.5 if self.prop == "C05" else (0.1 if self.prop in ("C14", "C07") else 0.3)
        faulty = (not force_plain) and (not self.knobs["fault_free"]) and rng.random() < pf
        pre, post = [], []
        tiny = False
        faults = []
        force_thermal = False
        if faulty:
            kinds = self.knobs["fault_kinds"]
            kind = rng.choice(kinds)
            can_t = self.meta["thermal"] and self.meta.get("t_feeders") and len(self.meta["t_feeders"]) < len(self.meta["feeders"])
            if can_t and "no-t-feeder" in kinds and rng.random() < 0.35:
                kind = "no-t-feeder"
            if kind == "no-t-feeder" and not can_t:
                kind = rng.choice([k_ for k_ in kinds if k_ != "no-t-feeder"] or ["tiny-budget"])
            if kind.startswith("solve-"):
                pass
            elif kind == "tiny-budget":
                tiny = True
            elif kind == "infeasible" and self.meta["loads"]:
                (t, i, c, v) = rng.choice(self.meta["loads"])
                if c.endswith("mdot_kg_per_s"):
                    cur = self.values[(t, i, c)]
                    big = cur * rng.choice([1e3, 1e4]) if cur else 50.0
                    pre.append({"op": "edit", "table": t, "index": i, "col": c, "val": big})
                    post.append({"op": "edit", "table": t, "index": i, "col": c, "val": cur})
            elif kind == "no-feeder":
                for (t, i) in self.meta["feeders"]:
                    pre.append({"op": "edit", "table": t, "index": i, "col": "in_service", "val": False})
                    post.append({"op": "edit", "table": t, "index": i, "col": "in_service", "val": True})
            elif kind == "no-t-feeder" and self.meta.get("t_feeders") and len(self.meta["t_feeders"]) < len(self.meta["feeders"]):
                # pressure is still fixed, no temperature is: the hydraulic stage converges, the thermal stage has
                # nothing to start from (fails before its Newton loop)
                for (t, i) in self.meta["t_feeders"]:
                    pre.append({"op": "edit", "table": t, "index": i, "col": "in_service", "val": False})
                    post.append({"op": "edit", "table": t, "index": i, "col": "in_service", "val": True})
                force_thermal = True
        kw = self.calc_kw(tiny_budget=tiny)
        if force_thermal:
            kw["mode"] = rng.choice(["sequential", "sequential", "bidirectional"])
        if self.prop == "C14" and not tiny and not force_plain:
            kw = self.opt_kw()
            for k in ("iter",) + STAGE_ITER:
                if k in kw:
                    kw[k] = max(kw[k], 40)
        if faulty and not pre and not tiny:
            faults = self.solver_fault(kw)
        op = {"op": "calc", "kw": kw, "faults": faults}
        if self.topo_dirty:
            op["topo"] = True
            self.topo_dirty = False
        self.last_calc = op
        self.dirty_since_hyd = bool(pre) or kw.get("mode") != "hydraulics" or bool(faults) or tiny
        self.last_hyd_kw = kw
        if any(e["col"] == "in_service" for e in pre):
            op["topo"] = True
            self.topo_dirty = True
        rep = [{"op": "repeat"}] if (not faulty and rng.random() < 0.25) else []
        return pre + [op] + rep + post

    def op_edit(self):
        """A parameter edit, remembered so that it is undone later."""
        rng = self.rng
        cands = []
        for (t, i, c, v) in self.meta["loads"]:
            cands.append((t, i, c, "scale"))
        for (t, i, c) in self.meta["toggles"]:
            cands.append((t, i, c, "toggle"))
        has_pump = any(b[0] == "pump" for b in self.meta["branches"])
        if self.meta["fluid"] == "water" and not self.program.get("fluid_spec") and rng.random() < (0.4 if has_pump else (0.3 if self.prop == "C15" else 0.12)) \
                and "fluid:density" not in self.values and "fluid:viscosity" not in self.values:
            # a property of the Fluid object replaced in place (restored by the undo)
            which = rng.choice(["density", "density", "viscosity"] if has_pump else ["density", "viscosity"])
            val = {"density": rng.choice([850.0, 970.0]), "viscosity": rng.choice([5e-4, 1.2e-3])}[which]
            self.values["fluid:" + which] = val
            self.pending_undo.append(("__fluid__", which, None, None))
            self.dirty_since_hyd = True
            return [{"op": "fluidprop", "prop": which, "val": val}]
        if not cands:
            return []
        if self.prop == "C07" and rng.random() < 0.8:
            loads_only = [c for c in cands if c[3] == "scale"]
            cands = loads_only or cands
        (t, i, c, how) = rng.choice(cands)
        if how == "toggle":
            self.topo_dirty = True
        key = (t, i, c)
        cur = self.values.get(key, True if how == "toggle" else 0.0)
        if how == "toggle":
            new = not bool(cur)
        else:
            new = round(float(cur) * rng.choice([0.5, 0.8, 1.25, 2.0]), 8)
        self.values[key] = new
        self.pending_undo.append((t, i, c, cur))
        self.dirty_since_hyd = True
        return [{"op": "edit", "table": t, "index": i, "col": c, "val": new}]

    def op_undo(self, all_=False):
        out = []
        while self.pending_undo:
            (t, i, c, old) = self.pending_undo.pop()
            if t == "__fluid__":
                self.values.pop("fluid:" + i, None)
                out.append({"op": "fluidprop", "prop": i, "val": None})
                self.dirty_since_hyd = True
                if not all_:
                    break
                continue
            self.values[(t, i, c)] = old
            if isinstance(old, bool):
                self.topo_dirty = True
            out.append({"op": "edit", "table": t, "index": i, "col": c, "val": old})
            self.dirty_since_hyd = True
            if not all_:
                break
        return out

    def op_setopt(self):
        rng = self.rng
        reset = rng.random() < 0.3
        kw = {}
        if self.prop == "C14":
            kw = self.opt_kw(nmax=4, allow_mode=rng.random() < 0.3)
            for k in ("iter",) + STAGE_ITER:
                if k in kw:
                    kw[k] = max(kw[k], 40)
            kw.pop("alpha", None) if rng.random() < 0.5 else None
            return {"op": "setopt", "reset": reset, "kw": kw}
        if self.prop == "C15" and rng.random() < 0.25:
            kw["my_unknown_option"] = rng.choice([{"__tuple__": [1, 2.5]}, {"__tuple__": ["a", "b"]}, [1, 2]])
        if rng.random() < 0.8:
            full = self.calc_kw()
            keys = sorted(k for k in full if k not in ("mode",))
            for k in rng.sample(keys, min(len(keys), rng.randint(0, 3))):
                kw[k] = full[k]
            if rng.random() < 0.3:
                kw["iter"] = rng.choice([40, 80, 80, 1, 2, 3])
            if rng.random() < 0.15 and self.meta["thermal"]:
                kw["mode"] = rng.choice(["sequential", "all"])
        return {"op": "setopt", "reset": reset, "kw": kw}

    def op_reload_check(self):
        """Load the blob of the last save once more (after whatever happened to the first loaded copy since)."""
        return {"op": "reload_check"}

    def op_restart(self):
        rng = self.rng
        path = rng.choice(["json_str", "json_file", "json_fobj", "json_enc", "json_file_enc", "json_fobj_enc", "pickle_path",
                           "pickle_fobj"])
        fault = None
        if not self.knobs["fault_free"] and path in ("json_file", "json_file_enc", "pickle_path") and rng.random() < 0.25:
            fault = rng.choice(["open", "write"])
        return {"op": "restart", "path": path, "disk_fault": fault,
                "errno": rng.choice([28, 5])}

    def op_budget_history(self):
        """The iteration budget lives in the stored user options only and is lowered between two calculations:
        the second one has to stop within the new budget."""
        rng = self.rng
        big = rng.choice([40, 60])
        small = rng.choice([1, 1, 2])
        kw = self.calc_kw()
        for key in ("iter",) + STAGE_ITER + ("alpha", "nonlinear_method"):
            kw.pop(key, None)
        ops = [{"op": "setopt", "reset": False, "kw": {"iter": big}},
               {"op": "calc", "kw": dict(kw), "faults": []},
               {"op": "setopt", "reset": False, "kw": {"iter": small}},
               {"op": "calc", "kw": dict(kw), "faults": []},
               {"op": "setopt", "reset": True, "kw": {}}]
        self.last_calc = ops[1]
        self.dirty_since_hyd = True
        return ops

    def op_reuse_pair(self):
        """Two calculations that legitimately share the cached matrix structure (only_update_hydraulic_matrix, the
        second one with reuse_internal_data, only a load changed in between, the second one possibly dying inside the
        Newton loop).  Whatever they leave behind must not reach the calls that follow."""
        rng = self.rng
        kw = self.calc_kw()
        kw.pop("alpha", None)
        kw.pop("nonlinear_method", None)
        kw["only_update_hydraulic_matrix"] = True
        kw2 = dict(kw)
        kw2["reuse_internal_data"] = True
        ops = [{"op": "calc", "kw": kw, "faults": []}]
        loads = [l for l in self.meta["loads"] if l[2].endswith("mdot_kg_per_s")]
        undo = []
        if loads and rng.random() < 0.6:
            (t, i, c, v) = rng.choice(loads)
            cur = self.values[(t, i, c)]
            ops.append({"op": "edit", "table": t, "index": i, "col": c, "val": round(float(cur) * rng.choice([0.5, 1.5]), 8)})
            undo = [{"op": "edit", "table": t, "index": i, "col": c, "val": cur}]
        if rng.random() < 0.35:
            for key in ("iter",) + STAGE_ITER:
                kw2.pop(key, None)
            kw2["iter"] = 1
        ops.append({"op": "calc", "kw": kw2, "faults": []})
        ops += undo
        if rng.random() < 0.5:
            # the call that must not see the leftovers: matrix update without reuse
            kw3 = self.calc_kw()
            kw3["only_update_hydraulic_matrix"] = True
            ops.append({"op": "calc", "kw": kw3, "faults": []})
        self.last_calc = ops[0]
        self.dirty_since_hyd = True
        return ops

    def op_heat_from_stored(self):
        """hydraulics-only calc immediately followed by a thermal-only calc fed with its solution."""
        kw = self.calc_kw()
        kw["mode"] = "hydraulics"
        kw.pop("alpha", None)
        kw2 = dict(kw)
        kw2["mode"] = "heat"
        ops = [{"op": "calc", "kw": kw, "faults": []}]
        if self.restarts_allowed and self.rng.random() < 0.5:
            ops.append(self.op_restart())
            ops[-1]["disk_fault"] = None
        ops.append({"op": "calc", "kw": kw2, "faults": [], "heat_stored": True})
        self.last_calc = ops[0]
        return ops


def _table_of(fn):
    m = {"create_junction": "junction", "create_sink": "sink", "create_source": "source",
         "create_mass_storage": "mass_storage", "create_ext_grid": "ext_grid",
         "create_heat_exchanger": "heat_exchanger", "create_pipe": "pipe",
         "create_pipe_from_parameters": "pipe", "create_valve": "valve", "create_pump": "pump",
         "create_circ_pump_const_pressure": "circ_pump_pressure",
         "create_circ_pump_const_mass_flow": "circ_pump_mass", "create_compressor": "compressor",
         "create_pressure_control": "press_control", "create_flow_control": "flow_control",
         "create_heat_consumer": "heat_consumer"}
    return m[fn]


# ==========================================================================================
# reference models
# ==========================================================================================
def model_resolve(user, call, fluid_name):
    """Option store model: call > user > defaults, with the documented couplings."""
    def expand(layer):
        layer = copy.deepcopy(layer)
        if layer and layer.get("iter") is not None:
            for k in STAGE_ITER:
                if k not in layer:
                    layer[k] = layer["iter"]
        return layer
    opts = dict(copy.deepcopy(OPTION_DEFAULTS))
    opts.update(expand(user))
    opts.update(expand(call))
    for k in ("interactive_plotting", "t_start"):
        opts.pop(k, None)
    if not opts["only_update_hydraulic_matrix"]:
        opts["reuse_internal_data"] = False
    if opts["mode"] == "all":
        opts["mode"] = "sequential"
    if not seams.SETUP_MOD.numba_installed:
        opts["use_numba"] = False     # documented coupling: numba falls back when unavailable
    opts["fluid"] = fluid_name
    return opts


def _tol_cmp(value, tol):
    """-1: clearly within, +1: clearly outside, 0: too close to judge."""
    if not np.isfinite(value):
        return 1
    if value <= tol * (1 - REL_MARGIN) - 1e-300:
        return -1
    if value > tol * (1 + REL_MARGIN):
        return 1
    return 0


def verdict_on_return(records, opts):
    """C05(a): evaluate the property's convergence conditions on the last Newton iteration of
    every pass, using only what crossed the solver seam.  Returns list of (sig, detail)."""
    out = []
    if not records:
        return [("C05/returned-without-solve", "no solver call observed")]
    passes = {}
    for r in records:
        passes.setdefault(r.pass_no, []).append(r)
    for pno in sorted(passes):
        recs = passes[pno]
        last_iter = max(r.niter for r in recs)
        last = [r for r in recs if r.niter == last_iter]
        site = "bidirectional" if any(r.bidir for r in last) else (
            "hydraulics" if last[0].stage == "hyd" else "heat")
        for r in last:
            if r.stage == "hyd":
                nn, nb = r.nn, r.nb
                groups = (("p", r.x[:nn] * r.alpha, opts["tol_p"]),
                          ("mdot", r.x[nn:nn + nb] * r.alpha, opts["tol_m"]),
                          ("mdotslack", r.x[nn + nb:], opts["tol_m"]))
            else:
                nn = r.nn
                groups = (("T", r.x[:nn] * r.alpha, opts["tol_T"]),
                          ("Tout", r.x[nn:] * r.alpha, opts["tol_T"]))
            for name, step, tol in groups:
                if len(step) == 0:
                    continue
                if np.any(~np.isfinite(step)):
                    out.append(("C05/returned-unconverged:nonfinite-step:%s@%s" % (name, site),
                                "pass %d iter %d" % (pno, r.niter)))
                    continue
                c = _tol_cmp(float(np.max(np.abs(step))), tol)
                if c > 0:
                    out.append(("C05/returned-unconverged:step>tol:%s@%s" % (name, site),
                                "pass %d iter %d max|d|=%r tol=%r" % (
                                    pno, r.niter, float(np.max(np.abs(step))), tol)))
            if r.b_has_nan:
                out.append(("C05/returned-unconverged:nonfinite-residual@%s" % site, "pass %d" % pno))
            elif not r.bidir and _tol_cmp(r.bnorm, opts["tol_res"]) > 0:
                out.append(("C05/returned-unconverged:residual>tol@%s" % site,
                            "pass %d iter %d |b|=%r tol_res=%r" % (pno, r.niter, r.bnorm, opts["tol_res"])))
            if opts["nonlinear_method"] == "automatic" and r.alpha != 1:
                out.append(("C05/returned-unconverged:alpha_used<1@%s" % site,
                            "pass %d iter %d alpha=%r" % (pno, r.niter, r.alpha)))
        if any(r.bidir for r in last):
            bn = max(r.bnorm for r in last)
            if _tol_cmp(bn, opts["tol_res"]) > 0:
                out.append(("C05/returned-unconverged:residual>tol@bidirectional",
                            "pass %d |b|=%r" % (pno, bn)))
    return out


def budget_exceeded(records, opts):
    out = []
    passes = {}
    for r in records:
        passes.setdefault(r.pass_no, []).append(r)
    for pno, recs in sorted(passes.items()):
        name = recs[0].max_iter_name
        if name is None or name not in opts:
            continue
        iters = len({r.niter for r in recs})
        if iters > opts[name]:
            out.append(("C05/budget-exceeded@%s" % name, "pass %d: %d iterations > %r" % (pno, iters, opts[name])))
    return out


# ==========================================================================================
# execution
# ==========================================================================================
class _Session:
    """One net object under test plus what the simulator knows about it."""

    def __init__(self, program, overrides=None):
        self.net = netmodel.build(program)
        self.overrides = overrides or {}
        self.stored_sol = None
        self.last_outcome = None
        self.prev_failed = False
        self.last_faulted = False
        self.last_res = None


def _sol_vec(net):
    return np.concatenate((net["_pit"]["node"][:, PINIT].copy(), net["_pit"]["branch"][:, MDOTINIT].copy()))


def _run_pipeflow(net, kw, solver, faults, sol_vec=None):
    solver.begin_calc(faults)
    try:
        if sol_vec is not None:
            pp.pipeflow(net, sol_vec=sol_vec, **kw)
        else:
            pp.pipeflow(net, **kw)
        return "ok", None
    except PipeflowNotConverged as e:
        return "nc", e
    except Exception as e:  # classified by the caller
        return "exc:" + type(e).__name__, e


def _res_digest(net):
    return {t: snap.df_columns_digest(net[t]) for t in netmodel.result_tables(net)}


def _flat(d):
    return canon_json(d)


trace_spy = [None]   # the friction-iteration spy of the run in progress


def execute(trace):
    res = RunResult()
    prop = trace["prop"]
    program, meta, ops = trace["program"], trace["meta"], trace["ops"]
    solver = seams.SimSolver()
    solver.install()
    fs = seams.SimFS()
    fs.install()
    seams.restore_defaults()
    spy = seams.ColebrookSpy()
    spy.install()
    trace_spy[0] = spy
    numba_flag = seams.SETUP_MOD.numba_installed
    if trace.get("knobs", {}).get("numba_unavailable"):
        seams.SETUP_MOD.numba_installed = False
        res.count("probe:numba-unavailable")
    try:
        _execute(trace, res, prop, program, meta, ops, solver, fs)
    finally:
        seams.SETUP_MOD.numba_installed = numba_flag
        spy.uninstall()
        solver.uninstall()
        fs.uninstall()
        leaked = seams.defaults_diff()
        if leaked:
            res.violate("C14", "C14/defaults-mutated:%s" % ",".join(leaked), "default_options changed by the run")
        seams.restore_defaults()
    return res


def _execute(trace, res, prop, program, meta, ops, solver, fs):
    fluid_name = program["fluid"]
    live = _Session(program)
    shadow = _Session(program) if prop == "C15" else None
    replicas = []
    if prop == "C07":
        replicas = _make_replicas(program, trace)
    overlay = {}                 # (table, idx, col) -> val   : the description's edit layer
    fluid_overlay = {}           # property name -> constant value currently replacing the fluid's own property
    user_model = {}              # model of net.user_pf_options (without hyd_flag)
    hyd_flag_model = None        # None = never set
    last_calc = None
    restarted = 0
    reuse_ok = False             # the previous operation was a matrix-updating calculation (cached structure is current)
    res.sig_parts.append(meta["family"])

    def overlay_list():
        return [(t, i, c, overlay[(t, i, c)]) for (t, i, c) in sorted(overlay, key=lambda k: (k[0], k[1], k[2]))]

    def twin_run(kw, mode_override=None):
        twin = netmodel.realise(program, overlay_list(), fluid_overlay)
        if user_model:
            twin["user_pf_options"] = copy.deepcopy(user_model)
        k2 = dict(kw)
        if mode_override:
            k2["mode"] = mode_override
        out, exc = _run_pipeflow(twin, k2, solver, [])
        return twin, out

    for oi, op in enumerate(ops):
        kind = op["op"]
        if kind == "repeat":
            if last_calc is None:
                continue
            op = dict(last_calc)
            op["faults"] = []
            op["_repeat"] = True
            kind = "calc"
        res.log.add("op", oi, kind)

        # --------------------------------------------------------------------------------
        if kind == "edit":
            key = (op["table"], op["index"], op["col"])
            for s in [live, shadow] + replicas:
                if s is not None:
                    netmodel.apply_edit(s.net, *key, op["val"])
            overlay[key] = op["val"]
            if isinstance(op["val"], bool) or op["col"] in ("in_service", "opened"):
                reuse_ok = False
            live.stored_sol = None
            live.last_res = None
            if isinstance(op["val"], bool) or op["col"] in ("in_service", "opened"):
                for s_ in replicas:
                    s_.topology_dirty = True
            res.sig_parts.append("E")
            continue

        # --------------------------------------------------------------------------------
        if kind == "fluidprop":
            # the Fluid object is altered in place (and later restored): "altered-and-restored parameters"
            for s in [live, shadow] + replicas:
                if s is not None:
                    if not hasattr(s, "fluid_originals") or getattr(s, "fluid_originals_net", None) is not s.net:
                        s.fluid_originals, s.fluid_originals_net = {}, s.net
                    if op["val"] is None and op["prop"] not in s.fluid_originals:
                        # (after a restart the replaced object is gone: put back what a fresh net holds)
                        fresh = netmodel.build({"fluid": program["fluid"], "fluid_spec": program.get("fluid_spec"), "ops": []})
                        s.net.fluid.add_property(op["prop"], fresh.fluid.all_properties[op["prop"]], overwrite=True, warn_on_duplicates=False)
                    else:
                        netmodel.apply_fluid_edit(s.net, op["prop"], op["val"], s.fluid_originals)
            if op["val"] is None:
                fluid_overlay.pop(op["prop"], None)
            else:
                fluid_overlay[op["prop"]] = op["val"]
            live.stored_sol = None
            live.last_res = None
            reuse_ok = reuse_ok   # (the matrix structure does not depend on fluid properties)
            res.sig_parts.append("F")
            res.count("probe:fluid-property-edit")
            continue

        # --------------------------------------------------------------------------------
        if kind == "setopt":
            op = dict(op, kw=netmodel.realise_markers(op["kw"]))
            kwc = copy.deepcopy(op["kw"])
            for s in [live, shadow] + replicas:
                if s is not None:
                    pp.set_user_pf_options(s.net, reset=op["reset"], **copy.deepcopy(op["kw"]))
            if op["kw"] != kwc:
                res.violate("C14", "C14/caller-kwargs-mutated@set_user_pf_options", "", oi)
            live.last_res = None
            reuse_ok = False
            live.stored_sol = None   # a stored hydraulic solution belongs to the options it was computed with
            if op["reset"]:
                user_model = {}
                hyd_flag_model = None
            user_model.update(copy.deepcopy(op["kw"]))
            _check_user_layer(res, live.net, user_model, hyd_flag_model, oi, "set_user_pf_options")
            res.sig_parts.append("S%d" % int(op["reset"]))
            continue

        # --------------------------------------------------------------------------------
        if kind == "initopt":
            before = snap.snapshot(live.net)
            kwc = copy.deepcopy(op["kw"])
            init_options(live.net, **op["kw"])
            if op["kw"] != kwc:
                res.violate("C14", "C14/caller-kwargs-mutated@init_options", "", oi)
            um = dict(user_model)
            if hyd_flag_model is not None:
                um["hyd_flag"] = hyd_flag_model
            _check_options(res, live.net, model_resolve(um, op["kw"], fluid_name), oi, "init_options",
                           um, op["kw"])
            d = snap.diff(before, snap.snapshot(live.net))
            for x in d:
                res.violate("C14", "C14/resolving-mutated:%s@init_options" % _strip(x), x, oi)
            res.sig_parts.append("I")
            continue

        # --------------------------------------------------------------------------------
        if kind == "reload_check":
            blob = getattr(live, "last_blob", None)
            if blob is None:
                continue
            try:
                again = pp.from_json_string(blob[0], encryption_key=KEY) if blob[1] else pp.from_json_string(blob[0])
            except Exception as e:
                res.violate("C15", "C15/second-load-raised:%s" % type(e).__name__, repr(e)[:200], oi)
                continue
            d = snap.diff(blob[2], snap.snapshot(again, include_results=True))
            for x in d:
                res.violate("C15", "C15/second-load-of-the-same-save-differs:%s" % _strip(x), x, oi)
            res.oracle_checks += 1
            res.count("probe:same-save-loaded-twice")
            continue

        if kind == "restart":
            restarted += 1
            reuse_ok = False
            _do_restart(res, live, op, fs, oi, restarted)
            res.sig_parts.append("R:%s:%s" % (op["path"], op["disk_fault"]))
            continue

        # --------------------------------------------------------------------------------
        assert kind == "calc"
        kw = copy.deepcopy(op["kw"])
        if prop != "C14" and kw.get("reuse_internal_data") and not reuse_ok:
            # reusing cached data is only legitimate right after a matrix-updating call on the same structure
            # (the generator emits such pairs; shrinking may have separated them)
            kw.pop("reuse_internal_data")
            res.count("probe:reuse-downgraded")
        faults = op.get("faults") or []
        heat_stored = bool(op.get("heat_stored"))
        sol = None
        if heat_stored:
            if live.stored_sol is None or not hyd_flag_model:
                res.log.add("skip heat_stored (no stored solution)")
                continue
            sol = live.stored_sol
        um = dict(user_model)
        if hyd_flag_model is not None:
            um["hyd_flag"] = hyd_flag_model
        opts_model = model_resolve(um, kw, fluid_name)
        mode = opts_model["mode"]

        before = snap.snapshot(live.net)
        kw_before = copy.deepcopy(kw)
        if trace_spy[0] is not None:
            del trace_spy[0].calls[:]
        outcome, exc = _run_pipeflow(live.net, kw, solver, faults, sol_vec=sol)
        # ---- C14, observable effect: the friction iteration runs with the resolved limits ---------------------
        if trace_spy[0] is not None and trace_spy[0].calls:
            used = sorted({(mi, tl) for (mi, tl) in trace_spy[0].calls}, key=str)
            want = (opts_model.get("max_iter_colebrook"), opts_model.get("tolerance_colebrook"))
            for (mi, tl) in used:
                if mi != want[0]:
                    res.violate("C14", "C14/in-force-differs:max_iter_colebrook@pipeflow", "used %r, resolved %r" % (mi, want[0]), oi)
                if tl is not None and tl != want[1]:
                    res.violate("C14", "C14/in-force-differs:tolerance_colebrook@pipeflow", "used %r, resolved %r" % (tl, want[1]), oi)
            res.count("probe:colebrook-arguments-observed")
        records, fired = solver.records, solver.fired
        res.calcs += 1
        res.count("calc:%s:%s" % (mode, outcome.split(":")[0]))
        for f in fired:
            res.count("fault:solve-%s" % f["kind"])
            res.count("faultcell:%s:%s:%d" % (f["kind"], f["stage"], min(f["call"], 3)))
        for r in records:
            res.log.add("  solve", r.brief())
        after = snap.snapshot(live.net)
        res.log.add("  outcome", outcome, "conv", live.net.get("converged"), _flat(_res_digest(live.net))[:0])
        res.log.add("  res", hash_results(live.net))
        res.sig_parts.append("C:%s:%s:%s" % (mode, outcome.split(":")[0], ",".join(sorted(f["kind"] + f["stage"] for f in fired))))
        res.nontrivial = True
        faulted = bool(fired)

        if kw != kw_before:
            res.violate("C14", "C14/caller-kwargs-mutated@pipeflow", "", oi)

        # ---- C12: durable state untouched ------------------------------------------------
        for x in snap.diff(before, after):
            res.violate("C12", "C12/durable-mutated:%s@pipeflow" % _strip(x), "%s (mode %s, outcome %s)" % (x, mode, outcome), oi)
        res.oracle_checks += 1

        # ---- C05: verdict / clean failure --------------------------------------------------
        if outcome == "ok":
            if not _is_bool(live.net.get("converged"), True):
                res.violate("C05", "C05/returned-but-not-marked-converged", "net.converged=%r" % live.net.get("converged"), oi)
            if mode != "heat":
                for sig, det in verdict_on_return(records, opts_model):
                    res.violate("C05", sig, det, oi)
            else:
                for sig, det in verdict_on_return([r for r in records if r.stage == "heat"], opts_model):
                    res.violate("C05", sig, det, oi)
            for sig, det in budget_exceeded(records, opts_model):
                res.violate("C05", sig, det, oi)
            bad = _nonfinite_supplied(live.net, mode, getattr(live, "hyd_mdot", None) if heat_stored else None)
            for b in bad:
                res.violate("C05", "C05/returned-nonfinite:%s@%s" % (b, mode), "", oi)
            res.oracle_checks += 1
            if live.prev_failed:
                res.count("probe:success-after-failure")
        elif outcome == "nc":
            if not _is_bool(live.net.get("converged"), False):
                res.violate("C05", "C05/failed-but-marked-converged", "", oi)
            for t in netmodel.any_number_in_results(live.net):
                res.violate("C05", "C05/results-after-failure:%s@%s" % (t, mode), "", oi)
            for sig, det in budget_exceeded(records, opts_model):
                res.violate("C05", sig, det, oi)
            res.oracle_checks += 1
            stage_failed = "connectivity" if not records else (
                "heat" if records[-1].stage == "heat" and not records[-1].bidir else
                ("bidirectional" if records[-1].bidir else "hydraulics"))
            res.count("probe:fail-in-%s" % stage_failed)
            if live.last_outcome == "ok":
                res.count("probe:failure-after-success")
        else:
            # any other exception from a calculation whose inputs are valid
            res.violate("C05", "C05/wrong-exception:%s:%s@%s" % (outcome[4:], _slug(exc), mode), repr(exc)[:200], oi)

        # ---- C14: options in force ---------------------------------------------------------
        _check_options(res, live.net, opts_model, oi, "pipeflow", um, kw, after_calc=True)
        if outcome == "ok" and mode in ("hydraulics", "sequential", "bidirectional"):
            hyd_flag_model = True
        elif outcome != "ok" and mode in ("sequential",) and any(r.stage == "heat" for r in records):
            hyd_flag_model = True
        elif outcome != "ok" and mode == "sequential":
            # hydraulics may have converged and the thermal stage failed before reaching the
            # solver: cannot be decided from the seam -> adopt the observed value (counted)
            obs = live.net.get("user_pf_options", {}).get("hyd_flag")
            if obs is not None and obs != hyd_flag_model:
                res.count("probe:hyd_flag-ambiguous")
                hyd_flag_model = obs
        _check_user_layer(res, live.net, user_model, hyd_flag_model, oi, "pipeflow")

        # ---- iteration budget actually honoured (observable effect of C14) ----------------
        # (covered by budget_exceeded above with the *model's* resolved budget)

        # ---- C12: repetition -----------------------------------------------------------------
        if op.get("_repeat") and last_calc is not None and not live.last_faulted and live.last_res is not None:
            if outcome != live.last_outcome:
                res.violate("C12", "C12/repeat-differs:outcome", "%s vs %s" % (live.last_outcome, outcome), oi)
            elif outcome == "ok":
                d = _digest_diff(live.last_res, _res_digest(live.net))
                for x in d:
                    res.violate("C12", "C12/repeat-differs:%s" % _strip(x), x, oi)
            res.oracle_checks += 1
            res.count("probe:repeat")

        # ---- C12 / C05: fresh twin ---------------------------------------------------------
        # (a call that reuses cached data is history-dependent by design and judged by C07; a call that only
        # updates the matrix without reusing must behave like one on a fresh net)
        reuse = bool(opts_model.get("reuse_internal_data"))
        if not faulted and not reuse:
            if heat_stored:
                twin, tout = twin_run(kw, mode_override="sequential")
                circ = ""
                if opts_model.get("nonlinear_method") == "automatic" and opts_model.get("alpha") != 1:
                    circ = "@adaptive-damping-with-alpha<1"
                if tout == "ok" and outcome == "ok":
                    d = [x for x in netmodel.results_equal_bitwise(live.net, twin) if x.split(".")[-1] in THERMAL_COLS]
                    for x in d:
                        res.violate("C12", "C12/heat-from-stored-differs:%s%s" % (_strip(x), circ), x, oi)
                    # C05: an element that gets a temperature in the stand-alone sequential run is supplied - the
                    # thermal-only run that returned normally must report a finite temperature for it as well
                    for x in d:
                        t_, c_ = x.split(".")[0], x.split(".")[-1]
                        if t_ in live.net and t_ in twin and c_ in live.net[t_] and len(live.net[t_]) == len(twin[t_]):
                            a_ = live.net[t_][c_].values.astype(float)
                            b_ = twin[t_][c_].values.astype(float)
                            if np.any(~np.isfinite(a_) & np.isfinite(b_)):
                                res.violate("C05", "C05/returned-nonfinite:%s.%s@heat" % (t_, c_), "NaN where the sequential twin has a value", oi)
                    res.count("probe:heat-from-stored-compared")
                elif tout != outcome:
                    res.violate("C12", "C12/heat-from-stored-differs:outcome%s" % circ, "%s vs twin %s" % (outcome, tout), oi)
            else:
                twin, tout = twin_run(kw)
                where = "after(%s)" % ("fail" if live.prev_failed else ("restart" if restarted else "any"))
                if tout != outcome:
                    res.violate("C12", "C12/history-dependent:outcome@%s" % where, "%s vs twin %s" % (outcome, tout), oi)
                    if live.prev_failed:
                        res.violate("C05", "C05/no-recovery-after-failure:outcome", "%s vs twin %s" % (outcome, tout), oi)
                elif outcome == "ok":
                    for x in netmodel.results_equal_bitwise(live.net, twin):
                        res.violate("C12", "C12/history-dependent:%s@%s" % (_strip(x), where), x, oi)
                        if live.prev_failed:
                            res.violate("C05", "C05/no-recovery-after-failure:%s" % _strip(x), x, oi)
                elif outcome == "nc":
                    # a failing calculation on a net with a past must leave the same (empty) result tables
                    # as the same failing calculation on a fresh net
                    for x in netmodel.results_equal_bitwise(live.net, twin):
                        res.violate("C12", "C12/history-dependent:%s@failed-run" % _strip(x), x, oi)
                    res.count("probe:failed-run-results-compared")
            res.oracle_checks += 1

        # ---- C15: never-restarted shadow -----------------------------------------------------
        if shadow is not None:
            s_sol = shadow.stored_sol if heat_stored else None
            if heat_stored and s_sol is None:
                pass
            else:
                sout, _ = _run_pipeflow(shadow.net, copy.deepcopy(op["kw"]), solver, faults, sol_vec=s_sol)
                if restarted:
                    if sout != outcome:
                        res.violate("C15", "C15/diverged-after-restart:outcome@%s" % mode, "%s vs shadow %s" % (outcome, sout), oi)
                    elif outcome == "ok":
                        for x in netmodel.results_equal_bitwise(live.net, shadow.net):
                            res.violate("C15", "C15/diverged-after-restart:%s@%s" % (_strip(x), mode), x, oi)
                    res.oracle_checks += 1
                    res.count("probe:calc-after-restart")
                if sout == "ok" and mode == "hydraulics":
                    shadow.stored_sol = _sol_vec(shadow.net)

        # ---- C07: replicas -------------------------------------------------------------------
        if replicas and not faulted:
            _run_replicas(res, replicas, op, live, outcome, mode, solver, oi)

        # ---- bookkeeping -------------------------------------------------------------------
        reuse_ok = bool(opts_model.get("only_update_hydraulic_matrix")) and mode != "heat"
        if bool(opts_model.get("reuse_internal_data")):
            res.count("probe:reusing-call-in-history")
        live.prev_failed = outcome != "ok"
        live.last_outcome = outcome
        live.last_faulted = faulted
        live.last_res = _res_digest(live.net)
        if not op.get("_repeat"):
            last_calc = op
        if outcome == "ok" and mode == "hydraulics" and not faulted:
            live.stored_sol = _sol_vec(live.net)
            live.hyd_mdot = {t_: live.net[t_]["mdot_from_kg_per_s"].copy() for t_ in netmodel.result_tables(live.net)
                             if "mdot_from_kg_per_s" in live.net[t_]}
        elif not heat_stored:
            live.stored_sol = None
        if mode == "heat" and outcome == "ok":
            res.count("probe:heat-mode-ran")
        if any(r.alpha is not None and r.alpha < 1 for r in records):
            res.count("probe:alpha<1")
    res.log.add("end", restarted)


# ------------------------------------------------------------------------------------------
def _slug(exc):
    import re
    return re.sub(r"[^a-z]+", "-", str(exc).lower())[:48].strip("-")


def _is_bool(v, want):
    return isinstance(v, (bool, np.bool_)) and bool(v) is want


def hash_results(net):
    import hashlib
    return hashlib.sha256(_flat(_res_digest(net)).encode()).hexdigest()[:16]


def _strip(x):
    """Violation detail without concrete numbers/labels: keep table.column(:kind)."""
    return x


def _digest_diff(a, b):
    out = []
    for t in sorted(set(a) | set(b)):
        if t not in a or t not in b:
            out.append("%s:missing" % t)
            continue
        for c in sorted(set(a[t]) | set(b[t])):
            if a[t].get(c) != b[t].get(c):
                out.append("%s.%s" % (t, c))
    return out


def _nonfinite_thermal(net, hyd_mdot=None):
    """After a thermal calculation every in-service branch that carries flow between two calculated junctions reports
    finite end temperatures.  (Stagnant branches and junctions no temperature source feeds into are reported with NaN /
    the ambient default by design; which part is thermally supplied is not re-decided here.)  hyd_mdot: branch mass
    flows of the hydraulic calculation a thermal-only run started from (such a run reports no mass flows itself)."""
    bad = []
    rj = net.get("res_junction")
    if rj is None or not len(rj) or "t_k" not in rj:
        return bad
    tk = rj.t_k.values.astype(float)
    if np.any(np.isinf(tk)):
        bad.append("res_junction.t_k:inf")
    # (a junction outside the supplied part is reported with the ambient default as temperature and no pressure)
    supplied = set(rj.index[np.isfinite(tk) & np.isfinite(rj.p_bar.values.astype(float))])
    for t in netmodel.result_tables(net):
        el = t[4:]
        if el not in net or not len(net[el]) or el in ("valve", "junction"):
            continue
        df, rt = net[el], net[t]
        cols = [c for c in ("from_junction", "to_junction") if c in df] or [c for c in ("return_junction", "flow_junction") if c in df]
        if len(cols) != 2 or "t_from_k" not in rt or "t_to_k" not in rt:
            continue
        ins = df.in_service.values.astype(bool) if "in_service" in df else np.ones(len(df), bool)
        sup = np.array([(a in supplied) and (b in supplied) for a, b in zip(df[cols[0]].values, df[cols[1]].values)], bool)
        msrc = hyd_mdot.get(t) if hyd_mdot is not None else (rt["mdot_from_kg_per_s"] if "mdot_from_kg_per_s" in rt else None)
        if msrc is None or len(msrc) != len(rt) or list(msrc.index) != list(rt.index):
            continue
        flowing = np.abs(msrc.values.astype(float)) > 1e-6
        rows = ins & sup & flowing
        for c in ("t_from_k", "t_to_k"):
            v = rt[c].values.astype(float)[rows]
            if np.any(~np.isfinite(v)):
                bad.append("%s.%s" % (t, c))
    return bad


def _nonfinite_supplied(net, mode, hyd_mdot=None):
    """Supplied in-service elements must have finite hydraulic results after a normal return."""
    bad = []
    if mode == "heat" or "res_junction" not in net:
        return bad   # thermal-only run: judged against the twin's sequential run (see the heat-from-stored comparison)
    rj = net.res_junction
    p = rj.p_bar.values.astype(float)
    if np.any(np.isinf(p)):
        bad.append("res_junction.p_bar:inf")
    supplied = set(rj.index[~np.isnan(p)])
    if not supplied:
        bad.append("res_junction.p_bar:all-nan")
    for t in netmodel.result_tables(net):
        if t == "res_junction":
            continue
        el = t[4:]
        if el not in net or not len(net[el]):
            continue
        df, rt = net[el], net[t]
        if "from_junction" in df and "to_junction" in df:
            ins = df.in_service.values if "in_service" in df else np.ones(len(df), bool)
            sup = np.array([(a in supplied) and (b in supplied) for a, b in zip(df.from_junction.values, df.to_junction.values)], bool)
            rows = ins.astype(bool) & sup
            if el == "valve":
                continue
            for c in ("mdot_from_kg_per_s", "p_from_bar", "p_to_bar"):
                if c in rt:
                    v = rt[c].values.astype(float)[rows]
                    if np.any(~np.isfinite(v)):
                        bad.append("%s.%s" % (t, c))
        elif "junction" in df and "mdot_kg_per_s" in rt:
            ins = df.in_service.values.astype(bool) if "in_service" in df else np.ones(len(df), bool)
            sup = np.array([j in supplied for j in df.junction.values], bool)
            if el == "ext_grid" and "type" in df:
                # an external grid that only fixes the temperature exchanges no mass: its mass flow is "not
                # applicable" (like a temperature in a hydraulics-only run), not a missing result
                ins = ins & (df["type"].values != "t")
            v = rt["mdot_kg_per_s"].values.astype(float)[ins & sup]
            if np.any(~np.isfinite(v)):
                bad.append("%s.mdot_kg_per_s" % t)
    if mode in ("sequential", "bidirectional"):
        # (which part of the net is *thermally* supplied is not re-decided here: islands without a temperature source
        # and stagnant branches are reported with NaN / the ambient default by design)
        tk = rj.t_k.values.astype(float)
        if np.any(np.isinf(tk)):
            bad.append("res_junction.t_k:inf")
    return bad


DOCUMENTED = documented_defaults()


def _check_options(res, net, model, oi, site, user, call, after_calc=False):
    got = net.get("_options")
    if got is None:
        res.violate("C14", "C14/no-options@%s" % site, "", oi)
        return
    skip = set()
    if after_calc and model.get("nonlinear_method") == "automatic":
        skip.add("alpha")  # adapted during the iteration by design
    for k in sorted(set(model) | set(got), key=str):
        if k in skip:
            continue
        layers = "%s%s" % ("u" if k in user else "-", "c" if k in call else "-")
        if k not in got:
            res.violate("C14", "C14/resolution:%s:%s:missing@%s" % (k, layers, site), "", oi)
        elif k not in model:
            res.violate("C14", "C14/resolution:%s:%s:unexpected@%s" % (k, layers, site), repr(got[k])[:80], oi)
        else:
            a, b = got[k], model[k]
            same = (type(a) is type(b) or (isinstance(a, (int, float)) and isinstance(b, (int, float)) and not isinstance(a, bool) and not isinstance(b, bool))) and a == b
            if not same:
                res.violate("C14", "C14/resolution:%s:%s@%s" % (k, layers, site), "got %r want %r" % (a, b), oi)
        res.count("optcell:%s:%s%s%s" % (k, "u" if k in user else "-", "c" if k in call else "-",
                                       "i" if ("iter" in call or "iter" in user) and k in STAGE_ITER else ""))
    # "... else the documented default": where no layer sets a key that the documentation lists with a default,
    # the value in force must be the one the documentation states
    for k, doc in sorted(DOCUMENTED.items()):
        if k in skip or k in user or k in call or k not in got:
            continue
        if k == "use_numba" and not seams.SETUP_MOD.numba_installed:
            continue   # documented coupling: falls back when numba is unavailable
        if ("iter" in user or "iter" in call) and k in STAGE_ITER:
            continue
        if got[k] != doc or isinstance(got[k], bool) != isinstance(doc, bool):
            res.violate("C14", "C14/documented-default-differs:%s@%s" % (k, site), "in force %r, documented %r" % (got[k], doc), oi)
    res.oracle_checks += 1


def _check_user_layer(res, net, user_model, hyd_flag_model, oi, site):
    got = net.get("user_pf_options", {})
    want = dict(user_model)
    if hyd_flag_model is not None:
        want["hyd_flag"] = hyd_flag_model
    if snap.canon_deep(got) != snap.canon_deep(want):
        keys = sorted(k for k in set(got) | set(want) if snap.canon_deep(got.get(k, "<absent>")) != snap.canon_deep(want.get(k, "<absent>")))
        res.violate("C14", "C14/user-layer:%s@%s" % (",".join(keys), site), "got %r want %r" % (got, want), oi)
    res.oracle_checks += 1


# ------------------------------------------------------------------------------------------
# restart (C15)
# ------------------------------------------------------------------------------------------
KEY = "verif-key"
# attributes of pandapower helper objects that are caches rebuilt by init_all() at the start of every
# time-series run (not part of what a user stored)
OBJECT_VOLATILE = {"OutputWriter": ("output_list", "time_step_lookup", "np_results", "output", "cur_realtime",
                                    "time_step", "time_steps"),
                   # the values written in the last time step: overwritten by time_step() before every use
                   "ConstControl": ("values",)}


def _save_load(net, path, fs, fault, eno, n):
    """Returns (loaded_net or None, raised exception or None)."""
    fname = "/simdisk/net%d" % n
    if fault:
        fs.fail_next = (fault, eno)
    try:
        if path == "json_str":
            s = pp.to_json(net)
            return pp.from_json_string(s), None
        if path == "json_enc":
            s = pp.to_json(net, encryption_key=KEY)
            return pp.from_json_string(s, encryption_key=KEY), None
        if path == "json_file":
            pp.to_json(net, fname + ".json")
            return pp.from_json(fname + ".json"), None
        if path == "json_fobj":
            buf = io.StringIO()
            pp.to_json(net, buf)
            buf.seek(0)
            return pp.from_json(buf), None
        if path == "json_file_enc":
            pp.to_json(net, fname + ".enc.json", encryption_key=KEY)
            return pp.from_json(fname + ".enc.json", encryption_key=KEY), None
        if path == "json_fobj_enc":
            buf = io.StringIO()
            pp.to_json(net, buf, encryption_key=KEY)
            buf.seek(0)
            return pp.from_json(buf, encryption_key=KEY), None
        if path == "pickle_path":
            pp.to_pickle(net, fname + ".p")
            return pp.from_pickle(fname + ".p"), None
        if path == "pickle_fobj":
            buf = io.BytesIO()
            pp.to_pickle(net, buf)
            buf.seek(0)
            return pp.from_pickle(buf), None
        raise ValueError(path)
    except OSError as e:
        return None, e
    except seams.HarnessFSError:
        raise
    except Exception as e:   # saving / loading a valid net must not fail for any other reason
        return None, _SaveLoadRaised(e)
    finally:
        fs.fail_next = None


class _SaveLoadRaised(Exception):
    def __init__(self, exc):
        super().__init__(repr(exc)[:300])
        self.exc = exc


def compare_loaded(orig, loaded, path):
    """C15 equality oracle; returns list of detail strings ('<entry>' or '<table>.<column>[:kind]').

    Structure (entries, columns and their order, dtypes, index dtype and labels) is compared
    exactly.  Float values are compared with |a-b| <= 1e-14 + 1e-13*|b| because the JSON text
    format carries 15 decimals - the property's own yardstick (nets_equal) is far looser; NaN
    must stay NaN and +-inf must stay +-inf."""
    out = []
    ka = sorted(k for k in orig.keys() if isinstance(k, str) and not k.startswith("_"))
    kb = sorted(k for k in loaded.keys() if isinstance(k, str) and not k.startswith("_"))
    for k in sorted(set(ka) - set(kb)):
        out.append("%s:removed" % k)
    for k in sorted(set(kb) - set(ka)):
        out.append("%s:added" % k)
    for k in sorted(set(ka) & set(kb)):
        a, b = orig[k], loaded[k]
        if isinstance(a, pd.DataFrame):
            if not isinstance(b, pd.DataFrame):
                out.append("%s:type" % k)
                continue
            if list(map(str, a.columns)) != list(map(str, b.columns)):
                if sorted(map(str, a.columns)) != sorted(map(str, b.columns)):
                    out.append("%s.@columns" % k)
                    continue
                out.append("%s.@column-order" % k)
            if a.index.dtype != b.index.dtype:
                out.append("%s.@index:dtype" % k)
            if len(a) != len(b) or not np.array_equal(a.index.values, b.index.values):
                if len(a) == len(b) and sorted(a.index.values.tolist()) == sorted(b.index.values.tolist()):
                    out.append("%s.@index:order" % k)
                    b = b.loc[a.index]
                else:
                    out.append("%s.@index" % k)
                    continue
            for c in a.columns:
                ca, cb = a[c], b[c]
                if ca.dtype != cb.dtype:
                    out.append("%s.%s:dtype" % (k, c))
                    continue
                va, vb = ca.values, cb.values
                if va.dtype.kind == "f":
                    na, nb_ = np.isnan(va), np.isnan(vb)
                    if not np.array_equal(na, nb_):
                        out.append("%s.%s:nan" % (k, c))
                        continue
                    ia, ib = np.isinf(va), np.isinf(vb)
                    if not np.array_equal(ia, ib) or not np.array_equal(va[ia], vb[ib]):
                        out.append("%s.%s:inf" % (k, c))
                        continue
                    m = ~na & ~ia
                    if not np.all(np.abs(va[m] - vb[m]) <= 1e-14 + 1e-13 * np.abs(vb[m])):
                        out.append("%s.%s" % (k, c))
                elif va.dtype == object:
                    for x, y in zip(va, vb):
                        if hasattr(x, "__dict__") and hasattr(y, "__dict__") and type(x).__name__ == type(y).__name__:
                            dx, dy = vars(x), vars(y)
                            skip = OBJECT_VOLATILE.get(type(x).__name__, ())
                            bad = sorted(a_ for a_ in set(dx) | set(dy) if a_ not in skip and
                                         snap.canon_deep(dx.get(a_, "<absent>")) != snap.canon_deep(dy.get(a_, "<absent>")))
                            if bad:
                                out.append("%s.%s:%s.%s" % (k, c, type(x).__name__, bad[0]))
                                break
                            continue
                        if snap.canon_deep(x) != snap.canon_deep(y):
                            kind = ":none-vs-nan" if (x is None or y is None) else ""
                            out.append("%s.%s%s" % (k, c, kind))
                            break
                else:
                    if not np.array_equal(va, vb):
                        out.append("%s.%s" % (k, c))
        elif k == "user_pf_options":
            if snap.canon_deep(dict(a)) != snap.canon_deep(dict(b)):
                out.append(k)
        elif k == "sector":
            if not (a == b and str(a) == str(b)):
                out.append(k)
        elif k == "converged":
            if bool(a) != bool(b):
                out.append(k)
        elif k == "component_list":
            na_ = [c.__name__ if isinstance(c, type) else type(c).__name__ for c in a]
            nb_ = [c.__name__ if isinstance(c, type) else type(c).__name__ for c in b]
            if na_ != nb_:
                out.append(k + (":order" if sorted(na_) == sorted(nb_) else ""))
        else:
            if snap.canon_deep(a) != snap.canon_deep(b):
                out.append(k)
    return out


def _do_restart(res, live, op, fs, oi, n):
    before = snap.snapshot(live.net, include_results=True)
    loaded, err = _save_load(live.net, op["path"], fs, op.get("disk_fault"), op.get("errno", 28), n)
    after = snap.snapshot(live.net, include_results=True)
    for x in snap.diff(before, after):
        res.violate("C15", "C15/save-mutated-net:%s@%s" % (_strip(x), op["path"]), x, oi)
    if isinstance(err, _SaveLoadRaised):
        res.violate("C15", "C15/save-load-raised:%s:%s@%s" % (type(err.exc).__name__, _slug(err.exc), op["path"].split("_")[0]),
                    str(err), oi)
        return
    if op.get("disk_fault"):
        res.count("fault:disk-%s" % op["disk_fault"])
        if err is None:
            # the write error was swallowed: the acknowledged save must then be readable
            if loaded is None:
                res.violate("C15", "C15/swallowed-disk-error@%s" % op["path"], "", oi)
        else:
            res.count("probe:disk-error-raised")
            # recovery: the next save/load must round-trip
            loaded, err2 = _save_load(live.net, op["path"], fs, None, 0, n + 1000)
            if err2 is not None or loaded is None:
                res.violate("C15", "C15/no-recovery-after-disk-error@%s" % op["path"], repr(err2), oi)
                return
    elif err is not None:
        res.violate("C15", "C15/unexpected-oserror@%s" % op["path"], repr(err), oi)
        return
    d = compare_loaded(live.net, loaded, op["path"])
    for x in d:
        res.violate("C15", "C15/lost:%s@%s" % (_strip(x), op["path"].split("_")[0]), x, oi)
    try:
        if not d and not pp.nets_equal(live.net, loaded, check_only_results=False):
            res.violate("C15", "C15/nets_equal-false-but-deep-compare-equal@%s" % op["path"].split("_")[0], "", oi)
    except Exception as e:
        res.violate("C15", "C15/nets_equal-raised:%s" % type(e).__name__, repr(e)[:200], oi)
    res.oracle_checks += 1
    res.count("restart:%s" % op["path"])
    if live.stored_sol is not None:
        res.count("probe:restart-between-hyd-and-heat")
    # the Python object is dropped; only what was written survives
    live.last_blob = None
    if op["path"] in ("json_str", "json_enc"):
        # keep the saved text and what its first load looked like (for a later second load of the same save)
        try:
            txt = pp.to_json(live.net, encryption_key=KEY) if op["path"] == "json_enc" else pp.to_json(live.net)
            first = pp.from_json_string(txt, encryption_key=KEY) if op["path"] == "json_enc" else pp.from_json_string(txt)
            live.last_blob = (txt, op["path"] == "json_enc", snap.snapshot(first, include_results=True))
            loaded = first
        except Exception:
            live.last_blob = None
    live.net = loaded
    live.last_res = None


# ------------------------------------------------------------------------------------------
# replicas (C07)
# ------------------------------------------------------------------------------------------
def _flowless_machine(net):
    """pump / compressor without flow: on the discontinuity of its characteristic (see e4._ill_posed)"""
    for t in ("res_pump", "res_compressor"):
        if t in net and len(net[t]) and "mdot_from_kg_per_s" in net[t]:
            m = np.abs(net[t]["mdot_from_kg_per_s"].values.astype(float))
            if np.any(np.isfinite(m) & (m < netmodel.ZERO_FLOW_ABS)):
                return True
    return False


def _make_replicas(program, trace):
    reps = []
    for name, ov in (("numpy", {"use_numba": False}),
                     ("numba", {"use_numba": True}),
                     ("numpy+update", {"use_numba": False, "only_update_hydraulic_matrix": True}),
                     ("numpy+reuse", {"use_numba": False, "only_update_hydraulic_matrix": True,
                                      "reuse_internal_data": True}),
                     ("numba+reuse", {"use_numba": True, "only_update_hydraulic_matrix": True,
                                      "reuse_internal_data": True})):
        s = _Session(program, ov)
        s.name = name
        s.exact_flows = bool(trace["meta"].get("radial"))
        s.topology_dirty = False
        reps.append(s)
    return reps


TIGHT = {"tol_p": 1e-9, "tol_m": 1e-9, "tol_T": 1e-7, "tol_res": 1e-5}  # (the residual has a round-off floor ~1e-7: accuracy is set by the step tolerances)


def _run_replicas(res, replicas, op, live, outcome, mode, solver, oi):
    if mode == "heat":
        return
    outs = []
    for s in replicas:
        kw = copy.deepcopy(op["kw"])
        kw.update(TIGHT)
        for k in ("iter",) + STAGE_ITER:
            kw.pop(k, None)
        kw.pop("alpha", None)   # full Newton steps: quadratic convergence, error << comparison tolerance
        # adaptive damping decides on error comparisons that round-off can flip, so "converged within
        # the budget" is not a well-defined function of the engine there: replicas use plain Newton
        kw["nonlinear_method"] = "constant"   # (explicitly: the user layer may hold "automatic" / alpha < 1)
        kw["alpha"] = 1
        kw["iter"] = 100
        kw.update(s.overrides)
        cc = kw.get("check_connectivity", s.net.get("user_pf_options", {}).get("check_connectivity", True))
        if cc != getattr(s, "last_cc", cc):
            s.topology_dirty = True   # the set of active elements depends on the connectivity check
        s.last_cc = cc
        if op.get("topo") or s.topology_dirty or not getattr(s, "primed", False):
            # internal data may only be reused while the set of active elements is unchanged
            kw["reuse_internal_data"] = False
        out, exc_ = _run_pipeflow(s.net, kw, solver, [])
        s.last_kw = kw
        if out.startswith("exc:"):
            out = "%s:%s" % (out, _slug(exc_)[:28])
        s.primed = out == "ok"
        s.topology_dirty = False
        if kw.get("reuse_internal_data") and s.overrides.get("reuse_internal_data"):
            res.count("probe:reuse-path-taken")
        outs.append(out)
    ref = replicas[0]
    if outs[0].startswith("exc:"):
        # the reference itself left with a foreign exception: that is C05's finding, nothing to compare
        res.count("probe:replica-reference-foreign-exception")
        return
    from .e4 import _almost_converged, _ill_posed, _results_by_tag, _retry_with_patience
    for s, out in zip(replicas[1:], outs[1:]):
        if out != outs[0] and {out, outs[0]} == {"ok", "nc"} and _almost_converged(s.net if out == "nc" else ref.net):
            # the one that ran out of budget was creeping towards the solution at the round-off floor
            res.count("probe:slow-convergence-verdict-skipped")
            continue
        if out != outs[0] and {out, outs[0]} == {"ok", "nc"}:
            # Newton's path in an ill-conditioned net depends on round-off: the side that ran out of budget gets a
            # far larger one (then strong damping); if it arrives, its results are compared like any others
            slow = s if out == "nc" else ref
            solver.begin_calc([])
            # (not where the recorded defect of the matrix-update path with pressure controllers decides the verdict:
            # hundreds of extra iterations per replica would be spent on a known finding)
            known_case = s.overrides.get("only_update_hydraulic_matrix") and "press_control" in s.net and len(s.net.press_control)
            if not known_case and _retry_with_patience(slow.net, slow.last_kw):
                res.count("probe:converged-with-larger-budget")
                slow.primed = False
                if slow is ref:
                    outs[0] = "ok"
                out = "ok"
        if out != outs[0]:
            res.violate("C07", "C07/verdict-differs:%s-vs-%s:%s-vs-%s@%s" % (ref.name, s.name, outs[0], out, mode), "%s vs %s" % (outs[0], out), oi)
            continue
        if out != "ok":
            continue
        if _flowless_machine(ref.net) or _flowless_machine(s.net):
            res.count("probe:ill-posed-flowless-pump")
            continue
        # temperatures of junctions inside a flowless loop are decided by the sign of a round-off flow
        ex = getattr(s, "exact_flows", False)
        if ex:
            fl = netmodel.flowless_junctions(ref.net, thr_rel=0.0, thr_abs=netmodel.EXACT_ZERO_FLOW_ABS) | \
                netmodel.flowless_junctions(s.net, thr_rel=0.0, thr_abs=netmodel.EXACT_ZERO_FLOW_ABS)
            res.count("probe:replica-compare-exact-flows")
        else:
            fl = netmodel.flowless_junctions(ref.net) | netmodel.flowless_junctions(s.net)
        d = netmodel.results_close(ref.net, s.net, rtol=1e-5, atol=1e-8, mask_zero_flow=True, skip_junction_t=fl, exact_flows=ex)
        if d:
            res.violate("C07", "C07/results-differ:%s-vs-%s@%s" % (ref.name, s.name, mode), ",".join(d)[:400], oi)
        res.oracle_checks += 1
    res.count("probe:replica-compare")
