#!/bin/bash
# usage: confirm_batch.sh <prop> <k:id> ...   e.g. confirm_batch.sh C14 1:C14-4 2:C14-5   (sources in ${WTOUT:-/tmp/wtout2}/<prop>/<k>)
prop=$1; shift
for kv in "$@"; do k=${kv%%:*}; id=${kv##*:}; CONFIRM_N=${CONFIRM_N:-4} /venv/bin/python /verif/tools/confirm_seeded.py ${WTOUT:-/tmp/wtout2}/$prop/$k $id; done
