#!/venv/bin/python
"""Turn the printed table of a selftest-mutants run (log file) into a report json.  usage: log_to_report.py log out.json"""
import json, re, sys
rows = []
for line in open(sys.argv[1], errors="replace"):
    m = re.match(r"^(\S+)\s+(C\d\d)\s+(caught|MISSED|harness-error|patch-failed)\s*(.*)$", line.rstrip("\n"))
    if m:
        rows.append({"name": m.group(1), "prop": m.group(2), "status": m.group(3),
                     "signatures": [x.strip() for x in m.group(4).split(", ") if x.strip()]})
json.dump(rows, open(sys.argv[2], "w"), indent=1)
print(len(rows))
