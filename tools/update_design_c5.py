#!/venv/bin/python
"""Replace the table of DESIGN.md C.5 by the rows of one or several selftest-mutants reports.
usage: update_design_c5.py report.json [more.json ...]   (later files override earlier ones)"""
import json, os, re, subprocess, sys
rows = subprocess.run(["/venv/bin/python", "/verif/tools/record_mutant_report.py"] + sys.argv[1:], capture_output=True, text=True)
body = rows.stdout.strip()
summary = rows.stderr.strip().splitlines()[-1]
p = "/verif/DESIGN.md"
s = open(p).read()
start = s.index("| change | check | caught by (first signatures) |")
end = s.index("History of misses and what was changed")
head = "| change | check | status | caught by (first signatures) |\n|---|---|---|---|\n"
s = s[:start] + head + body + "\n\n(" + summary + "; sources: " + ", ".join(os.path.basename(f) for f in sys.argv[1:]) + ")\n\n" + s[end:]
open(p, "w").write(s)
print(summary)
