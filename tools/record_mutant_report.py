#!/venv/bin/python
"""Record a selftest-mutants report (VERIF_MUTANT_REPORT json, one or several files) in seeded/<id>/meta.json
and print the C.5 table rows (markdown) for DESIGN.md.   usage: record_mutant_report.py report.json [more.json ...]"""
import json, os, sys
rows = {}
for f in sys.argv[1:]:
    for r in json.load(open(f)):
        rows[r["name"]] = r          # later files override earlier ones
out = []
for name in sorted(rows, key=lambda n: (n.startswith("seeded/"), n.split("/")[-1].split("-")[0], int(n.split("-")[-1]) if n.split("-")[-1].isdigit() else 0, n)):
    r = rows[name]
    label = name
    if name.startswith("seeded/"):
        mp = os.path.join("/verif", name, "meta.json")
        if os.path.exists(mp):
            m = json.load(open(mp))
            m["caught_by_check"] = {"check": "./check %s --tier quick (VERIF_REPO=scratch copy with the patch)" % r["prop"],
                                    "status": r["status"], "signatures": r.get("signatures", [])}
            json.dump(m, open(mp, "w"), indent=1)
            label = "%s — %s" % (name, (m.get("summary") or "")[:110].replace("|", "/").replace("\n", " "))
    out.append("| %s | %s | %s | %s |" % (label, r["prop"], r["status"], "; ".join(r.get("signatures", [])[:2])))
print("\n".join(out))
print("\n%d patches, %d caught" % (len(rows), sum(1 for r in rows.values() if r["status"] == "caught")), file=sys.stderr)
