#!/venv/bin/python
"""Confirm an independently written breaking change and store it under /verif/seeded/<id>/.

usage: confirm_seeded.py <src_dir with patch.diff demo.py meta.json> <id>
Steps (all in a scratch git worktree of /repo outside /repo and /verif, removed afterwards):
  1. patch applies to HEAD; 2. demo.py exits 1 with the change; 3. the full existing test suite passes with
  the change; 4. demo.py exits 0 without the change.  The outcome is written into meta.json ("confirmed").
"""
import json, os, shutil, subprocess, sys, tempfile

src, sid = sys.argv[1], sys.argv[2]
wt = tempfile.mkdtemp(prefix="confirm-", dir="/tmp")
os.rmdir(wt)
env = dict(os.environ, PYTHONPATH=os.path.join(wt, "src"), OMP_NUM_THREADS="1", OPENBLAS_NUM_THREADS="1", NUMBA_NUM_THREADS="1")
out = {"id": sid}
try:
    subprocess.check_call(["git", "-C", "/repo", "worktree", "add", "-q", "--detach", wt, "HEAD"])
    patch = os.path.abspath(os.path.join(src, "patch.diff"))
    ap = subprocess.run(["git", "-C", wt, "apply", patch], capture_output=True, text=True)
    out["applies"] = ap.returncode == 0
    if ap.returncode == 0:
        d1 = subprocess.run(["/venv/bin/python", os.path.abspath(os.path.join(src, "demo.py"))], env=env, cwd=wt, capture_output=True, text=True, timeout=900)
        out["demo_with_change_exit"] = d1.returncode
        out["demo_with_change_tail"] = (d1.stdout + d1.stderr)[-400:]
        ts = subprocess.run(["/venv/bin/python", "-m", "pytest", "src/pandapipes/test", "-q", "-p", "no:cacheprovider", "-n", os.environ.get("CONFIRM_N", "4"), "--timeout=900"],
                            env=env, cwd=wt, capture_output=True, text=True, timeout=3600)
        out["suite_with_change"] = ts.stdout.strip().splitlines()[-1] if ts.stdout.strip() else ts.stderr[-200:]
        out["suite_passes_with_change"] = ts.returncode == 0
        subprocess.check_call(["git", "-C", wt, "checkout", "-q", "--", "."])
        d0 = subprocess.run(["/venv/bin/python", os.path.abspath(os.path.join(src, "demo.py"))], env=env, cwd=wt, capture_output=True, text=True, timeout=900)
        out["demo_without_change_exit"] = d0.returncode
    out["confirmed"] = bool(out.get("applies") and out.get("demo_with_change_exit") == 1 and out.get("suite_passes_with_change")
                            and out.get("demo_without_change_exit") == 0)
finally:
    subprocess.call(["git", "-C", "/repo", "worktree", "remove", "--force", wt])
    shutil.rmtree(wt, ignore_errors=True)
dst = os.path.join("/verif/seeded", sid)
if out.get("confirmed"):
    os.makedirs(dst, exist_ok=True)
    for f in ("patch.diff", "demo.py"):
        shutil.copy(os.path.join(src, f), os.path.join(dst, f))
    meta = json.load(open(os.path.join(src, "meta.json")))
    meta["confirmed_by_verifier"] = out
    json.dump(meta, open(os.path.join(dst, "meta.json"), "w"), indent=1)
print(json.dumps(out))
